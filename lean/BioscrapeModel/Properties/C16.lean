import Mathlib.Probability.Distributions.Gaussian.Real
import Mathlib.Probability.Distributions.Gamma
import Mathlib.Probability.Distributions.Beta
import Mathlib.Probability.Distributions.Exponential
import Mathlib.Analysis.SpecialFunctions.Pow.Real
import Mathlib.Analysis.SpecialFunctions.Log.Basic
import Mathlib.Data.List.Perm.Basic
import Mathlib.Data.List.Nodup
import BioscrapeModel.Proofs.Laws
import BioscrapeModel.Model.Priors
import BioscrapeModel.Generated.PriorDispatch

/-
C16 — built-in priors are the log-densities they are named after.

Over the real numbers (`Transc ℝ`: `pow = rpow`, `exp`, `log`, `sqrt`), against Mathlib's own
densities where they exist.
-/
set_option linter.unusedSectionVars false
set_option linter.unusedSimpArgs false

namespace Bioscrape.C16
open Bioscrape Real ProbabilityTheory

local notation "π'" => Real.pi

theorem sq_eq (x : ℝ) : sq x = x ^ 2 := by
  unfold sq
  show Real.rpow x ((2 : ℕ) : ℝ) = x ^ 2
  exact Real.rpow_natCast x 2

theorem logOfProb_nonneg (p : ℝ) (h : 0 ≤ p) : logOfProb p = some (Real.log p) := by
  unfold logOfProb
  rw [if_neg (not_lt.mpr h)]
  rfl

/-! ### Uniform -/

theorem uniform_logpdf (lb ub x : ℝ) (h1 : lb ≤ x) (h2 : x ≤ ub) :
    logPrior π' (.uniform lb ub) x = some (Real.log (1 / (ub - lb))) := by
  rw [logPrior]
  rw [if_neg (by push Not; exact ⟨h2, h1⟩)]
  rfl

theorem uniform_rejects (lb ub x : ℝ) (h : x < lb ∨ ub < x) : logPrior π' (.uniform lb ub) x = none := by
  rw [logPrior]
  rw [if_pos (by rcases h with h | h; exact Or.inr h; exact Or.inl h)]

/-! ### Gaussian -/

theorem gaussian_logpdf (mu sigma x : ℝ) (hs : 0 < sigma) :
    logPrior π' (.gaussian mu sigma) x
      = some (Real.log (gaussianPDFReal mu (Real.toNNReal (sigma ^ 2)) x)) := by
  rw [logPrior]
  have hprob : (1 / (Transc.sqrt (((2 : ℕ) : ℝ) * π') * sigma) * Transc.exp (-(1 / ((2 : ℕ) : ℝ)) * sq (x - mu) / sq sigma))
      = gaussianPDFReal mu (Real.toNNReal (sigma ^ 2)) x := by
    rw [sq_eq, sq_eq, gaussianPDFReal_def]
    show 1 / (Real.sqrt (((2 : ℕ) : ℝ) * π') * sigma) * Real.exp (-(1 / ((2 : ℕ) : ℝ)) * (x - mu) ^ 2 / sigma ^ 2) = _
    have hv : ((Real.toNNReal (sigma ^ 2) : NNReal) : ℝ) = sigma ^ 2 := Real.coe_toNNReal _ (sq_nonneg sigma)
    simp only [hv]
    have h1 : Real.sqrt (2 * π' * sigma ^ 2) = Real.sqrt (2 * π') * sigma := by
      rw [Real.sqrt_mul (by positivity), Real.sqrt_sq hs.le]
    rw [h1]
    congr 1
    · push_cast; rw [one_div]
    · congr 1
      push_cast
      field_simp
  rw [hprob]
  exact logOfProb_nonneg _ (gaussianPDFReal_nonneg _ _ _)

/-- the Gaussian prior is symmetric about its mean and accepts every real value (it has no support to leave). -/
theorem gaussian_symmetric (mu sigma d : ℝ) :
    logPrior π' (.gaussian mu sigma) (mu + d) = logPrior π' (.gaussian mu sigma) (mu - d) := by
  rw [logPrior, logPrior]
  have h1 : sq (mu + d - mu) = d ^ 2 := by rw [sq_eq]; ring
  have h2 : sq (mu - d - mu) = d ^ 2 := by rw [sq_eq]; ring
  rw [h1, h2]

theorem gaussian_never_rejects (mu sigma x : ℝ) (hs : 0 < sigma) : (logPrior π' (.gaussian mu sigma) x).isSome = true := by
  rw [gaussian_logpdf mu sigma x hs]; rfl

/-- inside its support the uniform prior does not depend on the value at all. -/
theorem uniform_flat (lb ub x y : ℝ) (hx : lb ≤ x ∧ x ≤ ub) (hy : lb ≤ y ∧ y ≤ ub) :
    logPrior π' (.uniform lb ub) x = logPrior π' (.uniform lb ub) y := by
  rw [uniform_logpdf lb ub x hx.1 hx.2, uniform_logpdf lb ub y hy.1 hy.2]

/-! ### Exponential (rate λ) -/

theorem exponential_logpdf (lam x : ℝ) (hl : 0 < lam) (hx : 0 ≤ x) :
    logPrior π' (.exponential lam) x = some (Real.log (exponentialPDFReal lam x)) := by
  rw [logPrior]
  rw [if_neg (not_lt.mpr hx)]
  have : lam * Transc.exp (-lam * x) = exponentialPDFReal lam x := by
    show lam * Real.exp (-lam * x) = _
    unfold exponentialPDFReal gammaPDFReal
    rw [if_pos hx]
    simp [Real.Gamma_one, neg_mul]
  rw [this]
  exact logOfProb_nonneg _ (exponentialPDFReal_nonneg hl x)

theorem exponential_rejects (lam x : ℝ) (hx : x < 0) : logPrior π' (.exponential lam) x = none := by
  rw [logPrior, if_pos hx]

/-! ### Gamma (shape α, rate β) -/

theorem gamma_logpdf (a b x : ℝ) (ha : 0 < a) (hb : 0 < b) (hx : 0 ≤ x) :
    logPrior π' (.gamma a b (Real.Gamma a)) x = some (Real.log (gammaPDFReal a b x)) := by
  rw [logPrior]
  rw [if_neg (not_lt.mpr hx)]
  have : Transc.pow b a / Real.Gamma a * Transc.pow x (a - 1) * Transc.exp (-1 * b * x) = gammaPDFReal a b x := by
    show Real.rpow b a / Real.Gamma a * Real.rpow x (a - 1) * Real.exp (-1 * b * x) = _
    unfold gammaPDFReal
    rw [if_pos hx]
    congr 2
    ring
  rw [this]
  exact logOfProb_nonneg _ (gammaPDFReal_nonneg ha hb x)

theorem gamma_rejects (a b g x : ℝ) (hx : x < 0) : logPrior π' (.gamma a b g) x = none := by
  rw [logPrior, if_pos hx]

/-! ### Beta -/

theorem beta_logpdf (a b x : ℝ) (ha : 0 < a) (hb : 0 < b) (h0 : 0 < x) (h1 : x < 1) :
    logPrior π' (.beta a b (ProbabilityTheory.beta a b)) x = some (Real.log (betaPDFReal a b x)) := by
  rw [logPrior]
  rw [if_neg (by push Not; exact ⟨h0.le, h1.le⟩)]
  have : Transc.pow x (a - 1) * Transc.pow (1 - x) (b - 1) / ProbabilityTheory.beta a b = betaPDFReal a b x := by
    show Real.rpow x (a - 1) * Real.rpow (1 - x) (b - 1) / ProbabilityTheory.beta a b = _
    unfold betaPDFReal
    rw [if_pos ⟨h0, h1⟩]
    show x ^ (a - 1) * (1 - x) ^ (b - 1) / ProbabilityTheory.beta a b = _
    ring
  rw [this]
  apply logOfProb_nonneg
  unfold betaPDFReal
  rw [if_pos ⟨h0, h1⟩]
  have hbeta := ProbabilityTheory.beta_pos ha hb
  have hx1 : 0 < 1 - x := by linarith
  positivity

theorem beta_rejects (a b B x : ℝ) (hx : x < 0 ∨ 1 < x) : logPrior π' (.beta a b B) x = none := by
  rw [logPrior, if_pos hx]

/-! ### Log-uniform and log-Gaussian (densities written out) -/

theorem logUniform_logpdf (lb ub x : ℝ) (hlb : 0 < lb) (hlu : lb < ub) (h1 : lb ≤ x) (h2 : x ≤ ub) :
    logPrior π' (.logUniform lb ub) x = some (Real.log (1 / (x * (Real.log ub - Real.log lb)))) := by
  rw [logPrior]
  rw [if_neg (by push Not; exact ⟨h2, h1⟩)]
  apply logOfProb_nonneg
  have hx : 0 < x := lt_of_lt_of_le hlb h1
  have : 0 < Real.log ub - Real.log lb := sub_pos.mpr (Real.log_lt_log hlb hlu)
  show 0 ≤ 1 / (x * (Real.log ub - Real.log lb))
  positivity

theorem logUniform_rejects (lb ub x : ℝ) (h : x < lb ∨ ub < x) : logPrior π' (.logUniform lb ub) x = none := by
  rw [logPrior]
  rw [if_pos (by rcases h with h | h; exact Or.inr h; exact Or.inl h)]

/-- log-normal density `1/(xσ√(2π)) · exp(−(ln x − μ)²/(2σ²))`. -/
noncomputable def logNormalPDF (mu sigma x : ℝ) : ℝ :=
  1 / (x * sigma * Real.sqrt (2 * π')) * Real.exp (-(Real.log x - mu) ^ 2 / (2 * sigma ^ 2))

theorem logGaussian_logpdf (mu sigma x : ℝ) (hs : 0 < sigma) (hx : 0 < x) :
    logPrior π' (.logGaussian mu sigma) x = some (Real.log (logNormalPDF mu sigma x)) := by
  rw [logPrior]
  rw [if_neg (not_le.mpr hx)]
  have : (1 / (x * Transc.sqrt (((2 : ℕ) : ℝ) * π') * sigma) * Transc.exp (-(1 / ((2 : ℕ) : ℝ)) * sq (Transc.log x - mu) / sq sigma))
      = logNormalPDF mu sigma x := by
    rw [sq_eq, sq_eq]
    show 1 / (x * Real.sqrt (((2 : ℕ) : ℝ) * π') * sigma) * Real.exp (-(1 / ((2 : ℕ) : ℝ)) * (Real.log x - mu) ^ 2 / sigma ^ 2) = _
    unfold logNormalPDF
    congr 1
    · push_cast; ring
    · congr 1; push_cast; field_simp
  rw [this]
  apply logOfProb_nonneg
  unfold logNormalPDF
  positivity

theorem logGaussian_rejects (mu sigma x : ℝ) (hx : x ≤ 0) : logPrior π' (.logGaussian mu sigma) x = none := by
  rw [logPrior, if_pos hx]

/-! ### Vectors of parameters -/

theorem foldl_none (l : List (PriorSpec ℝ × Bool × ℝ)) : l.foldl (priorStep π') none = none := by
  induction l with
  | nil => rfl
  | cons a l ih => rw [List.foldl_cons]; exact ih

/-- a negative value under the `positive` flag rejects the vector, whatever the priors. -/
theorem positive_flag_rejects (pre post : List (PriorSpec ℝ × Bool × ℝ)) (spec : PriorSpec ℝ) (x : ℝ) (hx : x < 0) :
    checkPrior π' (pre ++ (spec, true, x) :: post) = none := by
  unfold checkPrior
  rw [List.foldl_append, List.foldl_cons]
  have : ∀ acc : Option ℝ, priorStep π' acc (spec, true, x) = none := by
    intro acc
    cases acc with
    | none => rfl
    | some lp => simp [priorStep, hx]
  rw [this]
  exact foldl_none post

/-- the log-prior of a vector whose entries are all accepted is the sum of the entries' log-priors. -/
theorem vector_prior_is_sum (items : List (PriorSpec ℝ × Bool × ℝ)) (ls : List ℝ)
    (h : List.Forall₂ (fun it l => ¬ (it.2.1 = true ∧ it.2.2 < 0) ∧ logPrior π' it.1 it.2.2 = some l) items ls) :
    checkPrior π' items = some ls.sum := by
  unfold checkPrior
  have key : ∀ (acc : ℝ), items.foldl (priorStep π') (some acc) = some (acc + ls.sum) := by
    induction h with
    | nil => intro acc; simp
    | @cons it l _ _ hhead _ ih =>
      intro acc
      rw [List.foldl_cons]
      have : priorStep π' (some acc) it = some (acc + l) := by
        unfold priorStep
        simp only [hhead.1, if_false, hhead.2]
      rw [this, ih]
      simp [add_assoc]
  simpa using key 0

/-- the posterior is −∞ exactly when the prior rejects: `get_likelihood_function` returns `-np.inf` when
`check_prior` is not finite (modelled by `none`). -/
noncomputable def posterior (pi : ℝ) (items : List (PriorSpec ℝ × Bool × ℝ)) (logLik : ℝ) : Option ℝ :=
  (checkPrior pi items).map (· + logLik)

theorem posterior_neg_inf_of_rejected (items : List (PriorSpec ℝ × Bool × ℝ)) (ll : ℝ)
    (h : checkPrior π' items = none) : posterior π' items ll = none := by
  simp [posterior, h]

/-! ### The two dictionaries are read by parameter name: their order does not matter -/

/-- one entry's contribution to the log-prior: `none` = rejected. -/
noncomputable def itemLp (it : PriorSpec ℝ × Bool × ℝ) : Option ℝ :=
  if it.2.1 = true ∧ it.2.2 < 0 then none else logPrior π' it.1 it.2.2

theorem fold_characterised (items : List (PriorSpec ℝ × Bool × ℝ)) (acc : ℝ) :
    items.foldl (priorStep π') (some acc)
      = if items.all (fun it => (itemLp it).isSome) then some (acc + (items.map (fun it => (itemLp it).getD 0)).sum) else none := by
  induction items generalizing acc with
  | nil => simp
  | cons it rest ih =>
    rw [List.foldl_cons]
    by_cases hrej : it.2.1 = true ∧ it.2.2 < 0
    · have : priorStep π' (some acc) it = none := by simp [priorStep, hrej]
      have hit : itemLp it = none := by simp [itemLp, hrej]
      rw [this, foldl_none]
      simp only [List.all_cons, hit, Option.isSome_none, Bool.false_and, Bool.false_eq_true, if_false]
    · cases hl : logPrior π' it.1 it.2.2 with
      | none =>
        have : priorStep π' (some acc) it = none := by simp [priorStep, hrej, hl]
        have hit : itemLp it = none := by simp [itemLp, hrej, hl]
        rw [this, foldl_none]
        simp only [List.all_cons, hit, Option.isSome_none, Bool.false_and, Bool.false_eq_true, if_false]
      | some l =>
        have : priorStep π' (some acc) it = some (acc + l) := by simp [priorStep, hrej, hl]
        have hit : itemLp it = some l := by simp [itemLp, hrej, hl]
        rw [this, ih]
        simp only [List.all_cons, List.map_cons, List.sum_cons, hit, Option.isSome_some, Bool.true_and, Option.getD_some, add_assoc]

/-- **the log-prior of a parameter vector does not depend on the order in which the parameters are listed.** -/
theorem checkPrior_perm (items items' : List (PriorSpec ℝ × Bool × ℝ)) (h : items.Perm items') :
    checkPrior π' items = checkPrior π' items' := by
  unfold checkPrior
  rw [fold_characterised, fold_characterised]
  have hall : items.all (fun it => (itemLp it).isSome) = items'.all (fun it => (itemLp it).isSome) := by
    rw [Bool.eq_iff_iff]
    simp only [List.all_eq_true]
    exact ⟨fun hh x hx => hh x (h.mem_iff.mpr hx), fun hh x hx => hh x (h.mem_iff.mp hx)⟩
  rw [hall, (h.map _).sum_eq]

/-- `self.prior[key]`: the prior registered under a parameter's *name*. -/
def lookupPrior (prior : List (String × PriorSpec ℝ × Bool)) (n : String) : Option (PriorSpec ℝ × Bool) :=
  (prior.find? (fun e => e.1 == n)).map (·.2)

/-- the entries `check_prior` works through: every (name, value) of the parameter dictionary with the prior of that name. -/
def itemsOf (prior : List (String × PriorSpec ℝ × Bool)) (vals : List (String × ℝ)) : List (PriorSpec ℝ × Bool × ℝ) :=
  vals.filterMap (fun nv => (lookupPrior prior nv.1).map (fun sp => (sp.1, sp.2, nv.2)))

theorem lookup_iff_mem (prior : List (String × PriorSpec ℝ × Bool)) (hk : (prior.map (·.1)).Nodup) (n : String)
    (v : PriorSpec ℝ × Bool) : lookupPrior prior n = some v ↔ (n, v) ∈ prior := by
  induction prior with
  | nil => simp [lookupPrior]
  | cons e rest ih =>
    obtain ⟨en, ev⟩ := e
    simp only [List.map_cons, List.nodup_cons] at hk
    by_cases hen : en = n
    · subst hen
      simp only [lookupPrior, List.find?_cons, beq_self_eq_true, Option.map_some, Option.some.injEq, List.mem_cons, Prod.mk.injEq, true_and]
      constructor
      · intro h; exact Or.inl h.symm
      · rintro (h | h)
        · exact h.symm
        · exact absurd (List.mem_map.mpr ⟨(en, v), h, rfl⟩) hk.1
    · have hbeq : (en == n) = false := by simpa using hen
      have : lookupPrior ((en, ev) :: rest) n = lookupPrior rest n := by simp [lookupPrior, List.find?_cons, hbeq]
      rw [this, ih hk.2]
      simp only [List.mem_cons, Prod.mk.injEq]
      constructor
      · exact Or.inr
      · rintro (⟨h, _⟩ | h)
        · exact absurd h.symm hen
        · exact h

/-- the prior dictionary is read by key: listing its entries in another order changes nothing. -/
theorem lookup_perm (prior prior' : List (String × PriorSpec ℝ × Bool)) (h : prior.Perm prior')
    (hk : (prior.map (·.1)).Nodup) (n : String) : lookupPrior prior n = lookupPrior prior' n := by
  have hk' : (prior'.map (·.1)).Nodup := (h.map _).nodup_iff.mp hk
  cases hl : lookupPrior prior n with
  | some v =>
    have := (lookup_iff_mem prior hk n v).mp hl
    exact ((lookup_iff_mem prior' hk' n v).mpr (h.mem_iff.mp this)).symm
  | none =>
    cases hl' : lookupPrior prior' n with
    | none => rfl
    | some v =>
      have := (lookup_iff_mem prior' hk' n v).mp hl'
      have := (lookup_iff_mem prior hk n v).mpr (h.mem_iff.mpr this)
      rw [hl] at this; cases this

/-- **`check_prior` is a function of the two dictionaries as dictionaries**: neither the order of the prior's entries nor
the order of the values matters (each value meets the prior registered under its own name). -/
theorem checkPrior_dict_order (prior prior' : List (String × PriorSpec ℝ × Bool)) (vals vals' : List (String × ℝ))
    (hp : prior.Perm prior') (hk : (prior.map (·.1)).Nodup) (hv : vals.Perm vals') :
    checkPrior π' (itemsOf prior vals) = checkPrior π' (itemsOf prior' vals') := by
  have h1 : itemsOf prior vals = itemsOf prior' vals := by
    unfold itemsOf
    congr 1
    funext nv
    rw [lookup_perm prior prior' hp hk]
  rw [h1]
  exact checkPrior_perm _ _ (hv.filterMap _)

/-! ### The dispatch chain of `check_prior` (regenerated from the source on every run) -/

/-- each prior type string is routed to the method of the same name, and the `positive` flag is tested
first. -/
theorem dispatch_table_ok :
    Bioscrape.Generated.priorDispatch =
      [("uniform", "uniform_prior"), ("gaussian", "gaussian_prior"), ("exponential", "exponential_prior"),
       ("gamma", "gamma_prior"), ("log-uniform", "log_uniform_prior"), ("log-gaussian", "log_gaussian_prior"),
       ("beta", "beta_prior")]
    ∧ Bioscrape.Generated.positiveFlagChecked = true := by
  decide

/-! ### Non-vacuity -/
example : logPrior π' (.exponential 2) (-1) = none := exponential_rejects 2 (-1) (by norm_num)
example : logPrior π' (.uniform 0 4) 1 = some (Real.log (1 / (4 - 0))) := uniform_logpdf 0 4 1 (by norm_num) (by norm_num)

end Bioscrape.C16
