import BioscrapeModel.Model.Pickle
import BioscrapeModel.Model.Term

/-
C17 — copies and pickles of models and results behave like the original.

The pickling code *is* a set of hand-kept tables; they are extracted from the source by a translator on
every run (`Generated/PickleTables.lean`) and the obligations `tablesOk_*` below are re-checked by the
kernel against what the source says now.  The generic theorem turns table consistency into the round trip.
-/
namespace Bioscrape.C17
open Bioscrape.Pickle Bioscrape.Generated

/-- **consistent tables ⇒ round trip**: restoring a dump gives back every persistent attribute, and every
derived C vector is rebuilt from (hence mirrors) its Python twin. -/
theorem roundtrip {V : Type} (t : PickleTable) (h : tablesOk t = true) (o fresh : Obj V) :
    (∀ a ∈ persistent t, restore t fresh (dump t o) a = o a)
    ∧ (∀ c ∈ t.declared.filter isDerived, t.setstate.find? (fun e => e.1 == c) = none →
        restore t fresh (dump t o) c = o (twin c)) := by
  unfold tablesOk at h
  simp only [Bool.and_eq_true, List.all_eq_true] at h
  obtain ⟨⟨⟨hp, _⟩, hd⟩, _⟩ := h
  constructor
  · intro a ha
    have := hp a ha
    unfold restore
    cases hf : t.setstate.find? (fun e => e.1 == a) with
    | none => rw [hf] at this; simp at this
    | some e =>
      rw [hf] at this
      simp only [beq_iff_eq] at this
      simp only [dump, List.getElem?_map, this, Option.map_some, Option.getD_some]
  · intro c hc hnone
    have := hd c hc
    unfold restore
    rw [hnone]
    cases hf : t.rebuild.find? (fun e => e.1 == c) with
    | none => rw [hf] at this; simp at this
    | some e =>
      rw [hf] at this
      simp only [beq_iff_eq] at this
      simp only [dump, List.getElem?_map, this.2, Option.map_some, Option.getD_some]

def tableOf (cls : String) : PickleTable :=
  (pickleTables.find? (fun t => t.cls == cls)).getD
    { cls := "", declared := ["missing"], getstate := [], setstate := [], rebuild := [], cleared := [], superSliceOk := false }

/-! ### the regenerated obligations: one per hand-pickled class -/

theorem tablesOk_Model : tablesOk (tableOf "Model") = true := by decide +kernel
theorem tablesOk_LineageModel : tablesOk (tableOf "LineageModel") = true := by decide +kernel
theorem tablesOk_Schnitz : tablesOk (tableOf "Schnitz") = true := by decide +kernel
theorem tablesOk_Lineage : tablesOk (tableOf "Lineage") = true := by decide +kernel
theorem tablesOk_ExperimentalLineage : tablesOk (tableOf "ExperimentalLineage") = true := by decide +kernel
theorem tablesOk_VolumeCellState : tablesOk (tableOf "VolumeCellState") = true := by decide +kernel

/-- all six tables were found by the translator. -/
theorem tables_present : pickleTables.map (·.cls)
    = ["Model", "Schnitz", "Lineage", "VolumeCellState", "LineageModel", "ExperimentalLineage"] := by decide +kernel

/-- the `LineageModel` tuple is its own 22 fields followed by the `Model` tuple, and the base class is
handed exactly that suffix. -/
theorem lineageModel_layout :
    (tableOf "LineageModel").getstate.drop 22 = (tableOf "Model").getstate
    ∧ (tableOf "LineageModel").superSliceOk = true := by decide +kernel

/-! ### expression trees: `restore_binary_term` rebuilds the same term list in order -/

/-- `BinaryTerm.__reduce__ = (restore_binary_term, (terms_list, cls))` and
`restore_binary_term` = fresh object, `py_add_term` for each element in order. -/
def restoreBinaryTerm {T : Type} (termsList : List T) : List T := termsList.foldl (fun acc x => acc ++ [x]) []

theorem binaryTerm_reduce {T : Type} (l : List T) : restoreBinaryTerm l = l := by
  unfold restoreBinaryTerm
  have : ∀ acc : List T, l.foldl (fun acc x => acc ++ [x]) acc = acc ++ l := by
    induction l with
    | nil => intro acc; simp
    | cons a l ih => intro acc; rw [List.foldl_cons, ih]; simp
  simpa using this []

/-! ### Non-vacuity -/
example : "species_values" ∈ persistent (tableOf "Model") := by decide +kernel
example : "division_rules_list" ∈ persistent (tableOf "LineageModel") := by decide +kernel

end Bioscrape.C17
