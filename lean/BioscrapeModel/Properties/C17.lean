import BioscrapeModel.Model.Pickle
import BioscrapeModel.Model.Term

/-
C17 — copies and pickles of models and results behave like the original.

The pickling code *is* a set of hand-kept tables; they are extracted from the source by a translator on
every run (`Generated/PickleTables.lean`) and the obligations `tablesOk_*` below are re-checked by the
kernel against what the source says now.  The generic theorem turns table consistency into the round trip.
-/
namespace Bioscrape.C17
open Bioscrape.Pickle Bioscrape.Generated

/-- **consistent tables ⇒ round trip**: restoring a dump gives back every persistent attribute, and every
derived C vector is rebuilt from (hence mirrors) its Python twin. -/
theorem roundtrip {V : Type} (t : PickleTable) (h : tablesOk t = true) (o fresh : Obj V) :
    (∀ a ∈ persistent t, restore t fresh (dump t o) a = o a)
    ∧ (∀ c ∈ t.declared.filter isDerived, t.setstate.find? (fun e => e.1 == c) = none →
        restore t fresh (dump t o) c = o (twin c)) := by
  unfold tablesOk at h
  simp only [Bool.and_eq_true, List.all_eq_true] at h
  obtain ⟨⟨⟨hp, _⟩, hd⟩, _⟩ := h
  constructor
  · intro a ha
    have := hp a ha
    unfold restore
    cases hf : t.setstate.find? (fun e => e.1 == a) with
    | none => rw [hf] at this; simp at this
    | some e =>
      rw [hf] at this
      simp only [beq_iff_eq] at this
      simp only [dump, List.getElem?_map, this, Option.map_some, Option.getD_some]
  · intro c hc hnone
    have := hd c hc
    unfold restore
    rw [hnone]
    cases hf : t.rebuild.find? (fun e => e.1 == c) with
    | none => rw [hf] at this; simp at this
    | some e =>
      rw [hf] at this
      simp only [beq_iff_eq] at this
      simp only [dump, List.getElem?_map, this.2, Option.map_some, Option.getD_some]

def tableOf (cls : String) : PickleTable :=
  (pickleTables.find? (fun t => t.cls == cls)).getD
    { cls := "", declared := ["missing"], getstate := [], setstate := [], rebuild := [], cleared := [], superSliceOk := false }

/-! ### the regenerated obligations: one per hand-pickled class -/

theorem tablesOk_Model : tablesOk (tableOf "Model") = true := by decide +kernel
theorem tablesOk_LineageModel : tablesOk (tableOf "LineageModel") = true := by decide +kernel
theorem tablesOk_Schnitz : tablesOk (tableOf "Schnitz") = true := by decide +kernel
theorem tablesOk_Lineage : tablesOk (tableOf "Lineage") = true := by decide +kernel
theorem tablesOk_ExperimentalLineage : tablesOk (tableOf "ExperimentalLineage") = true := by decide +kernel
theorem tablesOk_VolumeCellState : tablesOk (tableOf "VolumeCellState") = true := by decide +kernel

/-- all six tables were found by the translator. -/
theorem tables_present : pickleTables.map (·.cls)
    = ["Model", "Schnitz", "Lineage", "VolumeCellState", "LineageModel", "ExperimentalLineage"] := by decide +kernel

/-- the `LineageModel` tuple is its own 22 fields followed by the `Model` tuple, and the base class is
handed exactly that suffix. -/
theorem lineageModel_layout :
    (tableOf "LineageModel").getstate.drop 22 = (tableOf "Model").getstate
    ∧ (tableOf "LineageModel").superSliceOk = true := by decide +kernel

/-! ### cell states: `__reduce__ = (cls, args)` and `cls(*args)` -/

theorem zip_find_target {V : Type} (o : Obj V) (a : String) :
    ∀ (ps rs : List String), (ps.zip rs).all (fun pa => initTarget pa.1 == pa.2) = true → ps.length = rs.length → a ∈ rs →
      ((ps.zip (rs.map o)).find? (fun pa => initTarget pa.1 == a)).map (·.2) = some (o a) := by
  intro ps
  induction ps with
  | nil => intro rs _ hl ha; cases rs with
    | nil => cases ha
    | cons r rs => simp at hl
  | cons p ps ih =>
    intro rs hall hl ha
    cases rs with
    | nil => cases ha
    | cons r rs =>
      simp only [List.zip_cons_cons, List.all_cons, Bool.and_eq_true, beq_iff_eq] at hall
      simp only [List.map_cons, List.zip_cons_cons, List.find?_cons]
      by_cases hpa : initTarget p = a
      · simp only [hpa, beq_self_eq_true]
        rw [← hpa, hall.1]; rfl
      · have hne : (initTarget p == a) = false := by simpa using hpa
        simp only [hne]
        have har : a ∈ rs := by
          rcases List.mem_cons.mp ha with h | h
          · exact absurd (hall.1.trans h.symm) hpa
          · exact h
        exact ih rs hall.2 (by simpa using hl) har

/-- **a cell state restored from its pickle has every persistent attribute of the original** (whenever the regenerated
`__reduce__` / `__init__` table is consistent). -/
theorem reduce_roundtrip {V : Type} (t : ReduceTable) (h : reduceOk t = true) (o fresh : Obj V) (a : String)
    (ha : a ∈ reducePersistent t) : construct t fresh (dumpReduce t o) a = o a := by
  unfold reduceOk at h
  simp only [Bool.and_eq_true, beq_iff_eq, List.all_eq_true] at h
  obtain ⟨⟨⟨hlen, hzip⟩, hall⟩, _⟩ := h
  have hmem : a ∈ t.reduceArgs := by simpa using hall a ha
  have hz : (t.initParams.zip t.reduceArgs).all (fun pa => initTarget pa.1 == pa.2) = true := by
    simp only [List.all_eq_true, beq_iff_eq]; exact hzip
  have := zip_find_target o a t.initParams t.reduceArgs hz hlen.symm hmem
  unfold construct dumpReduce
  cases hf : (t.initParams.zip (t.reduceArgs.map o)).find? (fun pa => initTarget pa.1 == a) with
  | none => rw [hf] at this; cases this
  | some pa => rw [hf] at this; simpa using this

def reduceTableOf (cls : String) : ReduceTable :=
  (reduceTables.find? (fun t => t.cls == cls)).getD
    { cls := "", declared := ["missing"], reduceArgs := [], initParams := ["missing"], getstate := ["missing"] }

/-- the regenerated obligation for lineage cell states. -/
theorem reduceOk_LineageVolumeCellState : reduceOk (reduceTableOf "LineageVolumeCellState") = true := by decide +kernel

example : "dead" ∈ reducePersistent (reduceTableOf "LineageVolumeCellState") := by decide +kernel
example : "initial_time" ∈ reducePersistent (reduceTableOf "LineageVolumeCellState") := by decide +kernel

/-! ### copies of copies: any number of dump/restore generations -/

/-- the object after `n` generations of pickling (each generation restored into its own fresh object). -/
def generations {V : Type} (t : PickleTable) (fresh : Nat → Obj V) (o : Obj V) : Nat → Obj V
  | 0 => o
  | n + 1 => restore t (fresh n) (dump t (generations t fresh o n))

/-- **a copy of a copy of … of a model** still has every persistent attribute of the original, whatever the fresh
objects the intermediate generations were restored into. -/
theorem generations_roundtrip {V : Type} (t : PickleTable) (h : tablesOk t = true) (fresh : Nat → Obj V) (o : Obj V)
    (n : Nat) : ∀ a ∈ persistent t, generations t fresh o n a = o a := by
  induction n with
  | zero => intro a _; rfl
  | succ n ih =>
    intro a ha
    show restore t (fresh n) (dump t (generations t fresh o n)) a = o a
    rw [(roundtrip t h (generations t fresh o n) (fresh n)).1 a ha]
    exact ih a ha

/-- every derived C vector of a late-generation copy mirrors the *original's* Python twin, provided the twin itself is
persistent (it is, for every class: `twins_persistent_*` below). -/
theorem generations_derived {V : Type} (t : PickleTable) (h : tablesOk t = true) (fresh : Nat → Obj V) (o : Obj V)
    (n : Nat) (c : String) (hc : c ∈ t.declared.filter isDerived)
    (hnone : t.setstate.find? (fun e => e.1 == c) = none) (htw : twin c ∈ persistent t) :
    generations t fresh o (n + 1) c = o (twin c) := by
  show restore t (fresh n) (dump t (generations t fresh o n)) c = o (twin c)
  rw [(roundtrip t h (generations t fresh o n) (fresh n)).2 c hc hnone]
  exact generations_roundtrip t h fresh o n (twin c) htw

/-- the twins of all derived vectors are persistent attributes and no derived vector is written by `__setstate__`
directly (so `generations_derived` applies to every one of them), per class. -/
def twinsPersistent (t : PickleTable) : Bool :=
  (t.declared.filter isDerived).all (fun c =>
    (persistent t).contains (twin c) && (t.setstate.find? (fun e => e.1 == c)).isNone)

theorem twins_persistent_Model : twinsPersistent (tableOf "Model") = true := by decide +kernel
theorem twins_persistent_LineageModel : twinsPersistent (tableOf "LineageModel") = true := by decide +kernel
theorem twins_persistent_Lineage : twinsPersistent (tableOf "Lineage") = true := by decide +kernel

/-- the restore depends on the original only through its persistent tuple: two originals that agree on every stored
attribute give the same copy (so later edits of the original, which change only *its* attributes, cannot reach a copy
already made — the model-level content of "the copy is independent"; aliasing of the stored values themselves is what
the correspondence check's edit-one-check-the-other scenarios decide). -/
theorem restore_congr {V : Type} (t : PickleTable) (fresh : Obj V) (o o' : Obj V)
    (h : ∀ a ∈ t.getstate, o a = o' a) : restore t fresh (dump t o) = restore t fresh (dump t o') := by
  have : dump t o = dump t o' := by
    unfold dump; exact List.map_congr_left h
  rw [this]

/-- copies of copies of a cell state. -/
def reduceGenerations {V : Type} (t : ReduceTable) (fresh : Nat → Obj V) (o : Obj V) : Nat → Obj V
  | 0 => o
  | n + 1 => construct t (fresh n) (dumpReduce t (reduceGenerations t fresh o n))

theorem reduceGenerations_roundtrip {V : Type} (t : ReduceTable) (h : reduceOk t = true) (fresh : Nat → Obj V)
    (o : Obj V) (n : Nat) : ∀ a ∈ reducePersistent t, reduceGenerations t fresh o n a = o a := by
  induction n with
  | zero => intro a _; rfl
  | succ n ih =>
    intro a ha
    show construct t (fresh n) (dumpReduce t (reduceGenerations t fresh o n)) a = o a
    rw [reduce_roundtrip t h (reduceGenerations t fresh o n) (fresh n) a ha]
    exact ih a ha


/-! ### expression trees: `restore_binary_term` rebuilds the same term list in order -/

/-- `BinaryTerm.__reduce__ = (restore_binary_term, (terms_list, cls))` and
`restore_binary_term` = fresh object, `py_add_term` for each element in order. -/
def restoreBinaryTerm {T : Type} (termsList : List T) : List T := termsList.foldl (fun acc x => acc ++ [x]) []

theorem binaryTerm_reduce {T : Type} (l : List T) : restoreBinaryTerm l = l := by
  unfold restoreBinaryTerm
  have : ∀ acc : List T, l.foldl (fun acc x => acc ++ [x]) acc = acc ++ l := by
    induction l with
    | nil => intro acc; simp
    | cons a l ih => intro acc; rw [List.foldl_cons, ih]; simp
  simpa using this []

/-! ### Non-vacuity -/
example : "species_values" ∈ persistent (tableOf "Model") := by decide +kernel
example : "division_rules_list" ∈ persistent (tableOf "LineageModel") := by decide +kernel

end Bioscrape.C17
