import Mathlib.Algebra.Order.Field.Basic
import Mathlib.Algebra.CharZero.Defs
import Mathlib.Tactic.Ring
import Mathlib.Tactic.FieldSimp
import Mathlib.Tactic.Linarith
import Mathlib.Analysis.Calculus.Deriv.Slope
import Mathlib.Analysis.Calculus.Deriv.Comp
import Mathlib.Analysis.Calculus.Deriv.Pow
import Mathlib.Analysis.Calculus.Deriv.Inv
import Mathlib.Analysis.Calculus.Deriv.Add
import Mathlib.Analysis.Calculus.Deriv.Mul
import BioscrapeModel.Proofs.Laws
import BioscrapeModel.Model.Sensitivity

/-
C18 — reported Jacobians and parameter sensitivities match analytic derivatives.

Stencil algebra over any linearly ordered field: each scheme returns the exact derivative on
polynomials up to its order and its error on the next monomial is the classical leading term;
orientation of the Jacobian; the parameter writes of `compute_Zj` end with the original values.
Over the reals, for every differentiable restriction of the rate equations (Hill, general expressions):
each of the four difference quotients tends to the analytic derivative as the step tends to zero
(`stencil_tendsto`, from Mathlib's `HasDerivAt`).  Quantitative `C^k` error bounds (Taylor remainder) are
not formalised: the check's oracle compares with symbolically differentiated rate equations within the
scheme's bound.
-/
set_option linter.unusedSectionVars false
set_option linter.unusedSimpArgs false

namespace Bioscrape.C18
open Bioscrape

variable {α : Type} [Field α] [LinearOrder α] [IsStrictOrderedRing α]

/-- a quartic in the offset `s`: the restriction of a rate equation of total order ≤ 4 to one coordinate. -/
def quartic (c0 c1 c2 c3 c4 : α) (s : α) : α := c0 + c1 * s + c2 * s ^ 2 + c3 * s ^ 3 + c4 * s ^ 4

/-- **fourth-order central difference is exact on polynomials of degree ≤ 4**: it returns the derivative `c1`. -/
theorem fourth_order_exact (c0 c1 c2 c3 c4 h : α) (hh : h ≠ 0) :
    stencil .fourth (quartic c0 c1 c2 c3 c4) h = c1 := by
  unfold stencil quartic
  have h12 : ((12 : ℕ) : α) * h ≠ 0 := mul_ne_zero (by norm_num) hh
  rw [div_eq_iff h12]
  push_cast
  ring

/-- its error on the first monomial it does not differentiate exactly, `s^5`: `−4h⁴ = −(h⁴/30)·5!`
— the classical `h⁴/30 · f⁽⁵⁾` leading term. -/
theorem fourth_order_error_quintic (h : α) (hh : h ≠ 0) :
    stencil .fourth (fun s => s ^ 5) h = -4 * h ^ 4 := by
  unfold stencil
  have h12 : ((12 : ℕ) : α) * h ≠ 0 := mul_ne_zero (by norm_num) hh
  rw [div_eq_iff h12]
  push_cast
  ring

/-- **central difference is exact on polynomials of degree ≤ 2.** -/
theorem central_exact (c0 c1 c2 h : α) (hh : h ≠ 0) :
    stencil .central (fun s => c0 + c1 * s + c2 * s ^ 2) h = c1 := by
  unfold stencil
  have h2 : ((2 : ℕ) : α) * h ≠ 0 := mul_ne_zero (by norm_num) hh
  rw [div_eq_iff h2]
  push_cast
  ring

/-- its error on `s^3` is `h²` (`= h²/6 · 3!`). -/
theorem central_error_cubic (h : α) (hh : h ≠ 0) : stencil .central (fun s => s ^ 3) h = h ^ 2 := by
  unfold stencil
  have h2 : ((2 : ℕ) : α) * h ≠ 0 := mul_ne_zero (by norm_num) hh
  rw [div_eq_iff h2]
  push_cast
  ring

/-- **forward and backward differences are exact on polynomials of degree ≤ 1**, with error `±h` on `s²`
(`= h/2 · 2!`). -/
theorem forward_exact (c0 c1 h : α) (hh : h ≠ 0) : stencil .forward (fun s => c0 + c1 * s) h = c1 := by
  unfold stencil; rw [div_eq_iff hh]; ring

theorem backward_exact (c0 c1 h : α) (hh : h ≠ 0) : stencil .backward (fun s => c0 + c1 * s) h = c1 := by
  unfold stencil; rw [div_eq_iff hh]; ring

theorem forward_error_quadratic (h : α) (hh : h ≠ 0) : stencil .forward (fun s => s ^ 2) h = h := by
  unfold stencil; rw [div_eq_iff hh]; ring

theorem backward_error_quadratic (h : α) (hh : h ≠ 0) : stencil .backward (fun s => s ^ 2) h = -h := by
  unfold stencil; rw [div_eq_iff hh]; ring

/-- every scheme is linear in the function, so exactness on monomials extends to all polynomials of
the scheme's order (and the error of a polynomial is the sum of the errors of its monomials). -/
theorem stencil_linear (m : DiffMethod) (f g : α → α) (a b h : α) :
    stencil m (fun s => a * f s + b * g s) h = a * stencil m f h + b * stencil m g h := by
  cases m <;> simp only [stencil] <;> ring

/-- **every scheme is exact on affine restrictions** (first-order mass action in the shifted coordinate; a parameter that
enters a rate linearly): whatever `method` is selected the reported entry is the slope itself. -/
theorem affine_exact (m : DiffMethod) (c0 c1 h : α) (hh : h ≠ 0) : stencil m (fun s => c0 + c1 * s) h = c1 := by
  cases m
  · have := fourth_order_exact c0 c1 0 0 0 h hh
    unfold quartic at this
    simpa using this
  · simpa using central_exact c0 c1 0 h hh
  · exact backward_exact c0 c1 h hh
  · exact forward_exact c0 c1 h hh

/-- **sparsity**: an equation that does not involve the shifted coordinate (its restriction is constant) gets an entry
of exactly zero under every scheme and every step — no spurious coupling is reported. -/
theorem stencil_const (m : DiffMethod) (c h : α) : stencil m (fun _ => c) h = 0 := by
  cases m <;> simp [stencil] <;> (try ring_nf) <;> simp

/-- the two symmetric schemes do not depend on the sign of the step; the one-sided schemes are mirror images of each
other (a negative `h` turns `forward` into `backward`). -/
theorem stencil_neg_step (f : α → α) (h : α) :
    stencil .central f (-h) = stencil .central f h ∧ stencil .fourth f (-h) = stencil .fourth f h
      ∧ stencil .forward f (-h) = stencil .backward f h ∧ stencil .backward f (-h) = stencil .forward f h := by
  refine ⟨?_, ?_, ?_, ?_⟩
  · simp only [stencil, neg_neg, mul_neg, div_neg]
    rw [← neg_div]; congr 1; ring
  · simp only [stencil, neg_neg, mul_neg, div_neg]
    rw [← neg_div]; congr 1; ring
  · simp only [stencil, div_neg]
    rw [← neg_div]; congr 1; ring
  · simp only [stencil, neg_neg, div_neg]
    rw [← neg_div]; congr 1; ring

variable [Transc α]

/-- **orientation**: entry `[i][j]` of the reported Jacobian differentiates equation `i` with respect to
state `j` (the other states fixed). -/
theorem jacobian_orientation (meth : DiffMethod) (m : SimModel α) (x p : List α) (t h : α) (i j : Nat)
    (hi : i < m.nSpecies) (hj : j < m.nSpecies) :
    ((computeJ meth m x p t h).getD i []).getD j 0
      = stencil meth (fun s => vecGet (evaluateModel m (shift x j s) p t) i) h := by
  unfold computeJ
  simp [List.getD_eq_getElem?_getD, hi, hj]

/-- hence for rate equations that are polynomials of degree ≤ 4 in each state (all mass-action networks
of total order ≤ 4) the default scheme reports the exact partial derivative. -/
theorem jacobian_exact_of_quartic (m : SimModel α) (x p : List α) (t h : α) (i j : Nat) (hh : h ≠ 0)
    (hi : i < m.nSpecies) (hj : j < m.nSpecies) (c0 c1 c2 c3 c4 : α)
    (hpoly : ∀ s, vecGet (evaluateModel m (shift x j s) p t) i = quartic c0 c1 c2 c3 c4 s) :
    ((computeJ .fourth m x p t h).getD i []).getD j 0 = c1 := by
  rw [jacobian_orientation .fourth m x p t h i j hi hj]
  have : (fun s => vecGet (evaluateModel m (shift x j s) p t) i) = quartic c0 c1 c2 c3 c4 := funext hpoly
  rw [this]
  exact fourth_order_exact c0 c1 c2 c3 c4 h hh

theorem sensitivity_orientation (meth : DiffMethod) (m : SimModel α) (x orig : List α) (pj : Nat) (t h : α) (i : Nat)
    (hi : i < m.nSpecies) :
    (computeZj meth m x orig pj t h).getD i 0
      = stencil meth (fun s => vecGet (evaluateModel m x (shift orig pj s) t) i) h := by
  unfold computeZj
  simp [List.getD_eq_getElem?_getD, hi]

/-- **computing a sensitivity leaves the model's parameters as they were**: for each of the four schemes
and any number of equations, the last write of `compute_Zj` restores the original values. -/
theorem zj_restores_params (meth : DiffMethod) (orig cur : List α) (pj : Nat) (h : α) (n : Nat) :
    zjParamTrace meth orig cur pj h n = orig := by
  unfold zjParamTrace
  simp only
  induction n with
  | zero => simp
  | succ n ih =>
    rw [List.range_succ, List.foldl_append, ih]
    cases meth <;> simp

/-! ### Non-vacuity -/
example : stencil .fourth (quartic (1 : ℚ) 2 3 4 5) (1 / 100) = 2 := fourth_order_exact 1 2 3 4 5 _ (by norm_num)


/-! ### Convergence: every scheme tends to the analytic derivative

Over the reals, for *any* differentiable restriction `f` of the rate equations to one coordinate (Hill functions,
general expressions, … — not only polynomials): as the step tends to zero each of the four difference quotients of
`compute_J` / `compute_Zj` tends to the analytic derivative `f'(0)`. -/

section convergence
open Filter Topology

/-- the scaled slope `t⁻¹ (f (c t) − f 0)` tends to `c · f'(0)`. -/
theorem scaled_slope_tendsto (f : ℝ → ℝ) (f' c : ℝ) (hf : HasDerivAt f f' 0) :
    Tendsto (fun t : ℝ => t⁻¹ * (f (c * t) - f 0)) (𝓝[≠] 0) (𝓝 (c * f')) := by
  have hin : HasDerivAt (fun t : ℝ => c * t) c 0 := by simpa using (hasDerivAt_id (0 : ℝ)).const_mul c
  have hf0 : HasDerivAt f f' (c * 0) := by simpa using hf
  have hg : HasDerivAt (fun t : ℝ => f (c * t)) (f' * c) 0 := HasDerivAt.comp (0 : ℝ) hf0 hin
  have := hg.tendsto_slope_zero
  simp only [zero_add, mul_zero, smul_eq_mul] at this
  rwa [mul_comm f' c] at this

theorem stencil_forward_tendsto (f : ℝ → ℝ) (f' : ℝ) (hf : HasDerivAt f f' 0) :
    Tendsto (stencil .forward f) (𝓝[≠] 0) (𝓝 f') := by
  have h1 := scaled_slope_tendsto f f' 1 hf
  simp only [one_mul] at h1
  refine h1.congr' ?_
  filter_upwards [self_mem_nhdsWithin] with h hh
  simp only [stencil]
  field_simp

theorem stencil_backward_tendsto (f : ℝ → ℝ) (f' : ℝ) (hf : HasDerivAt f f' 0) :
    Tendsto (stencil .backward f) (𝓝[≠] 0) (𝓝 f') := by
  have h1 := (scaled_slope_tendsto f f' (-1) hf).neg
  simp only [neg_mul, one_mul, neg_neg] at h1
  refine h1.congr' ?_
  filter_upwards [self_mem_nhdsWithin] with h hh
  have hh' : h ≠ 0 := hh
  simp only [stencil]
  field_simp
  ring

theorem stencil_central_tendsto (f : ℝ → ℝ) (f' : ℝ) (hf : HasDerivAt f f' 0) :
    Tendsto (stencil .central f) (𝓝[≠] 0) (𝓝 f') := by
  have h1 := ((scaled_slope_tendsto f f' 1 hf).sub (scaled_slope_tendsto f f' (-1) hf)).div_const 2
  have e : (1 * f' - -1 * f') / 2 = f' := by ring
  rw [e] at h1
  refine h1.congr' ?_
  filter_upwards [self_mem_nhdsWithin] with h hh
  have hh' : h ≠ 0 := hh
  simp only [stencil, one_mul, neg_mul]
  push_cast
  field_simp
  ring

theorem stencil_fourth_tendsto (f : ℝ → ℝ) (f' : ℝ) (hf : HasDerivAt f f' 0) :
    Tendsto (stencil .fourth f) (𝓝[≠] 0) (𝓝 f') := by
  have h1 := (((((scaled_slope_tendsto f f' 2 hf).neg).add ((scaled_slope_tendsto f f' 1 hf).const_mul 8)).sub
    ((scaled_slope_tendsto f f' (-1) hf).const_mul 8)).add (scaled_slope_tendsto f f' (-2) hf)).div_const 12
  have e : (-(2 * f') + 8 * (1 * f') - 8 * (-1 * f') + -2 * f') / 12 = f' := by ring
  rw [e] at h1
  refine h1.congr' ?_
  filter_upwards [self_mem_nhdsWithin] with h hh
  have hh' : h ≠ 0 := hh
  simp only [stencil, one_mul, neg_mul]
  push_cast
  field_simp
  ring

/-- **all four schemes converge to the analytic derivative.** -/
theorem stencil_tendsto (meth : DiffMethod) (f : ℝ → ℝ) (f' : ℝ) (hf : HasDerivAt f f' 0) :
    Tendsto (stencil meth f) (𝓝[≠] 0) (𝓝 f') := by
  cases meth
  · exact stencil_fourth_tendsto f f' hf
  · exact stencil_central_tendsto f f' hf
  · exact stencil_backward_tendsto f f' hf
  · exact stencil_forward_tendsto f f' hf

/-- the hypothesis is met by a Hill-type restriction `s ↦ (2 + s)² / (1 + (2 + s)²)` (non-polynomial). -/
example : ∃ f', HasDerivAt (fun s : ℝ => (2 + s) ^ 2 / (1 + (2 + s) ^ 2)) f' 0 := by
  have hnum : HasDerivAt (fun s : ℝ => (2 + s) ^ 2) (2 * (2 + 0) ^ 1 * 1) 0 := by
    simpa using ((hasDerivAt_id (0 : ℝ)).const_add 2).fun_pow 2
  have hden : HasDerivAt (fun s : ℝ => 1 + (2 + s) ^ 2) (2 * (2 + 0) ^ 1 * 1) 0 := hnum.const_add 1
  exact ⟨_, hnum.div hden (by norm_num)⟩

end convergence

end Bioscrape.C18
