import Mathlib.Algebra.Order.Field.Basic
import Mathlib.Algebra.Order.Floor.Ring
import Mathlib.Tactic.Linarith
import Mathlib.Tactic.Ring
import Mathlib.Tactic.NormNum
import Mathlib.Data.Real.Basic
import BioscrapeModel.Model.Lineage
import BioscrapeModel.Properties.C20

/-
C19 — division conserves molecules and volume; lineage records are consistent.
-/
set_option linter.unusedSectionVars false
set_option linter.unusedSimpArgs false
set_option linter.unusedVariables false

namespace Bioscrape.C19
open Bioscrape

/-! ### Binomial trials -/

section Binomial
variable {σ α : Type} [LT α] [DecidableLT α]

/-- the next `n` uniforms of the stream. -/
def draws (g : Gen σ α) : Nat → σ → List α
  | 0, _ => []
  | n + 1, s => (g s).1 :: draws g n (g s).2

/-- the stream after `n` draws. -/
def advance (g : Gen σ α) : Nat → σ → σ
  | 0, s => s
  | n + 1, s => advance g n (g s).2

theorem binomTrials_aux (g : Gen σ α) (p : α) (l : List Nat) (c : Nat) (s : σ) :
    l.foldl (fun (acc : Nat × σ) _ => ((if (g acc.2).1 < p then acc.1 + 1 else acc.1), (g acc.2).2)) (c, s)
      = (c + (draws g l.length s).countP (fun u => decide (u < p)), advance g l.length s) := by
  induction l generalizing c s with
  | nil => simp [draws, advance]
  | cons a l ih =>
    simp only [List.foldl_cons, List.length_cons, draws, advance, List.countP_cons]
    rw [ih]
    by_cases h : (g s).1 < p <;> simp [h] <;> omega

/-- **binomial counts**: `binom_rnd_f` returns the number of the next `n` uniforms that are below `p`, and
consumes exactly those `n` uniforms — for every stream.  (With independent uniform draws this is
Binomial(n, p); independence and uniformity of MT19937 are not part of the theorem.) -/
theorem binomTrials_count (g : Gen σ α) (n : Nat) (p : α) (s : σ) :
    binomTrials g n p s = ((draws g n s).countP (fun u => decide (u < p)), advance g n s) := by
  unfold binomTrials
  have := binomTrials_aux g p (List.range n) 0 s
  simpa using this

theorem draws_length (g : Gen σ α) (n : Nat) (s : σ) : (draws g n s).length = n := by
  induction n generalizing s with
  | zero => rfl
  | succ n ih => simp [draws, ih]

/-- a daughter never receives more than there is. -/
theorem binomTrials_le (g : Gen σ α) (n : Nat) (p : α) (s : σ) : (binomTrials g n p s).1 ≤ n := by
  rw [binomTrials_count]
  calc (draws g n s).countP _ ≤ (draws g n s).length := List.countP_le_length
    _ = n := draws_length g n s

end Binomial

/-! ### Species partition: one generic fold -/

section Split
variable {σ α : Type} [Field α] [LinearOrder α] [IsStrictOrderedRing α] [Transc α] [Trunc α]

theorem vecGet_set_eq (v : List α) (i : Nat) (a : α) (h : i < v.length) : vecGet (v.set i a) i = a := by
  simp [vecGet, List.getD_eq_getElem?_getD, h]

theorem vecGet_set_ne (v : List α) (i j : Nat) (a : α) (h : i ≠ j) : vecGet (v.set i a) j = vecGet v j := by
  simp [vecGet, List.getD_eq_getElem?_getD, List.getElem?_set_ne h]

/-- where a partition stands: every species in `P` has been split (the daughters sum to the mother and the
share satisfies `Q`), every other species is still the mother's count in both daughters. -/
structure SplitInv (state : List α) (acc : List α × List α × σ) (P : Nat → Prop) (Q : Nat → α → α → Prop) : Prop where
  lenD : acc.1.length = state.length
  lenE : acc.2.1.length = state.length
  split : ∀ i, i < state.length → P i →
    vecGet acc.1 i + vecGet acc.2.1 i = vecGet state i ∧ Q i (vecGet state i) (vecGet acc.1 i)
  dup : ∀ i, i < state.length → ¬ P i → vecGet acc.1 i = vecGet state i ∧ vecGet acc.2.1 i = vecGet state i

/-- the shape shared by every species-splitting step: `dstate[i] = dv; estate[i] -= dv`, with `dv` computed
from `dstate[i]` and satisfying `Q`. -/
def SplitStep (f : List α × List α × σ → Nat → List α × List α × σ) (L : List Nat) (Q : Nat → α → α → Prop) : Prop :=
  ∀ acc i, i ∈ L → ∃ dv s', f acc i = (acc.1.set i dv, acc.2.1.set i (vecGet acc.2.1 i - dv), s') ∧ Q i (vecGet acc.1 i) dv

theorem fold_split (f : List α × List α × σ → Nat → List α × List α × σ) (Q : Nat → α → α → Prop) (state : List α)
    (L : List Nat) (hf : SplitStep f L Q) (hnd : L.Nodup) :
    ∀ (done : List Nat) (rest : List Nat) (acc : List α × List α × σ), (∀ i ∈ rest, i ∈ L) → rest.Nodup →
      (∀ i ∈ rest, i ∉ done) → SplitInv state acc (· ∈ done) Q →
      SplitInv state (rest.foldl f acc) (fun i => i ∈ done ∨ i ∈ rest) Q := by
  intro done rest
  induction rest generalizing done with
  | nil => intro acc _ _ _ h; simpa using h
  | cons a rest ih =>
    intro acc hsub hnd' hdisj h
    rw [List.foldl_cons]
    obtain ⟨dv, s', hfa, hq⟩ := hf acc a (hsub a (by simp))
    have hnd'' := List.nodup_cons.mp hnd'
    have hstep : SplitInv state (f acc a) (· ∈ a :: done) Q := by
      rw [hfa]
      refine ⟨by simp [h.lenD], by simp [h.lenE], ?_, ?_⟩
      · intro i hi hP
        by_cases hia : i = a
        · subst hia
          have hnot : i ∉ done := hdisj i (by simp)
          have hd := h.dup i hi hnot
          rw [vecGet_set_eq _ _ _ (by rw [h.lenD]; exact hi), vecGet_set_eq _ _ _ (by rw [h.lenE]; exact hi)]
          refine ⟨by rw [hd.2]; ring, ?_⟩
          rw [← hd.1]; exact hq
        · have hP' : i ∈ done := by
            rcases List.mem_cons.mp hP with h1 | h1
            · exact absurd h1 hia
            · exact h1
          simp only [vecGet_set_ne _ _ _ _ (Ne.symm hia)]
          exact h.split i hi hP'
      · intro i hi hP
        have hia : i ≠ a := fun hh => hP (by simp [hh])
        have hP' : i ∉ done := fun hh => hP (by simp [hh])
        simp only [vecGet_set_ne _ _ _ _ (Ne.symm hia)]
        exact h.dup i hi hP'
    have := ih (a :: done) (f acc a) (fun i hi => hsub i (by simp [hi])) hnd''.2
      (by
        intro i hi hmem
        rcases List.mem_cons.mp hmem with h1 | h1
        · subst h1; exact hnd''.1 hi
        · exact hdisj i (by simp [hi]) h1) hstep
    refine ⟨this.lenD, this.lenE, ?_, ?_⟩
    · intro i hi hP
      apply this.split i hi
      rcases hP with h1 | h1
      · left; simp [h1]
      · rcases List.mem_cons.mp h1 with h2 | h2
        · left; simp [h2]
        · right; exact h2
    · intro i hi hP
      apply this.dup i hi
      intro hh
      apply hP
      rcases hh with h1 | h1
      · rcases List.mem_cons.mp h1 with h2 | h2
        · right; simp [h2]
        · left; exact h2
      · right; simp [h1]

theorem splitInv_init (state : List α) (s : σ) (Q : Nat → α → α → Prop) :
    SplitInv state (state, state, s) (· ∈ ([] : List Nat)) Q :=
  ⟨rfl, rfl, fun i _ h => by simp at h, fun i _ _ => ⟨rfl, rfl⟩⟩

theorem splitInv_mono {state : List α} {acc : List α × List α × σ} {P P' : Nat → Prop} {Q Q' : Nat → α → α → Prop}
    (h : SplitInv state acc P Q) (hP : ∀ i, P i ↔ P' i) (hQ : ∀ i x d, P i → Q i x d → Q' i x d) :
    SplitInv state acc P' Q' :=
  ⟨h.lenD, h.lenE, fun i hi hp => ⟨(h.split i hi ((hP i).mpr hp)).1, hQ i _ _ ((hP i).mpr hp) (h.split i hi ((hP i).mpr hp)).2⟩,
   fun i hi hp => h.dup i hi (fun hh => hp ((hP i).mp hh))⟩

end Split

/-! ### The three step functions -/

section Steps
variable {σ α : Type} [Field α] [LinearOrder α] [IsStrictOrderedRing α] [FloorRing α] [Transc α] [Trunc α]
  [C20.LawfulTrunc α]

/-- what a binomially split species receives: a natural number of molecules, at most `int(x + 0.5)`. -/
def QBin (x dv : α) : Prop := ∃ k : Nat, dv = (k : α) ∧ k ≤ (Trunc.trunc (x + 1 / 2) : Int).toNat

/-- what a perfectly split species receives when its share `p * x` is not negative: a whole number of
molecules within `tol` of the share. -/
def QPerfect (p tol : α) (strict : Bool) (x dv : α) : Prop :=
  0 ≤ p * x → (∃ z : Int, dv = (z : α)) ∧ (if strict then |dv - p * x| < tol else |dv - p * x| ≤ tol)

theorem splitBinomial_step (g : Gen σ α) (p : α) (L : List Nat) :
    SplitStep (splitBinomial g p) L (fun _ => QBin) := by
  intro acc i _
  refine ⟨((binomRndF g (vecGet acc.1 i) p acc.2.2).1 : α), (binomRndF g (vecGet acc.1 i) p acc.2.2).2, rfl, ?_⟩
  refine ⟨_, rfl, ?_⟩
  unfold binomRndF
  have := binomTrials_le g (Trunc.trunc (vecGet acc.1 i + 1 / ((2 : Nat) : α)) : Int).toNat p acc.2.2
  simpa using this

theorem trunc_nonneg (d : α) (h : 0 ≤ d) : (Trunc.trunc d : Int) = ⌊d⌋ := by
  rw [C20.LawfulTrunc.trunc_eq]; simp [h]

/-- the value a perfectly split species receives in `LineageVolumeSplitter` (and the stream afterwards). -/
def perfLineageVal (g : Gen σ α) (p eps x : α) (s : σ) : α × σ :=
  let d := p * x
  let ai : Int := Trunc.trunc d
  let amount : α := (ai : α)
  if d - amount ≤ eps ∧ ai ≥ 0 then (amount, s)
  else
    let (u, s) := g s
    (if u ≤ p then amount + 1 else amount, s)

theorem splitPerfectLineage_eq (g : Gen σ α) (p eps : α) (acc : List α × List α × σ) (i : Nat) :
    splitPerfectLineage g p eps acc i =
      (acc.1.set i (perfLineageVal g p eps (vecGet acc.1 i) acc.2.2).1,
       acc.2.1.set i (vecGet acc.2.1 i - (perfLineageVal g p eps (vecGet acc.1 i) acc.2.2).1),
       (perfLineageVal g p eps (vecGet acc.1 i) acc.2.2).2) := rfl

theorem perfLineageVal_spec (g : Gen σ α) (p eps x : α) (s : σ) (heps : 0 ≤ eps) :
    QPerfect p 1 true x (perfLineageVal g p eps x s).1 := by
  intro hd
  have hfl : (0 : Int) ≤ ⌊p * x⌋ := Int.floor_nonneg.mpr hd
  have h2 := Int.floor_le (p * x)
  have h3 := Int.lt_floor_add_one (p * x)
  unfold perfLineageVal
  simp only [trunc_nonneg _ hd, if_true]
  split_ifs with h1 hu
  · exact ⟨⟨_, rfl⟩, by rw [abs_lt]; constructor <;> linarith⟩
  · have hgt : eps < p * x - (⌊p * x⌋ : α) := by
      by_contra hc
      exact h1 ⟨not_lt.mp hc, hfl⟩
    exact ⟨⟨⌊p * x⌋ + 1, by push_cast; ring⟩, by rw [abs_lt]; constructor <;> linarith⟩
  · exact ⟨⟨_, rfl⟩, by rw [abs_lt]; constructor <;> linarith⟩

theorem splitPerfectLineage_step (g : Gen σ α) (p eps : α) (heps : 0 ≤ eps) (L : List Nat) :
    SplitStep (splitPerfectLineage g p eps) L (fun _ => QPerfect p 1 true) := by
  intro acc i _
  exact ⟨_, _, splitPerfectLineage_eq g p eps acc i, perfLineageVal_spec g p eps _ _ heps⟩

/-- the value a perfectly split species receives in `GeneralVolumeSplitter`. -/
def perfGeneralVal (g : Gen σ α) (p eps x : α) (s : σ) : α × σ :=
  let d := p * x
  let amount : α := ((Trunc.trunc (d + 1 / ((2 : Nat) : α)) : Int) : α)
  let diff := d - amount
  let adiff := if diff < 0 then -diff else diff
  if adiff ≤ eps then (amount, s)
  else
    let (u, s) := g s
    let fl : α := ((Trunc.trunc d : Int) : α)
    (if u ≤ p then fl + 1 else fl, s)

theorem splitPerfectGeneral_eq (g : Gen σ α) (p eps : α) (acc : List α × List α × σ) (i : Nat) :
    splitPerfectGeneral g p eps acc i =
      (acc.1.set i (perfGeneralVal g p eps (vecGet acc.1 i) acc.2.2).1,
       acc.2.1.set i (vecGet acc.2.1 i - (perfGeneralVal g p eps (vecGet acc.1 i) acc.2.2).1),
       (perfGeneralVal g p eps (vecGet acc.1 i) acc.2.2).2) := rfl

theorem perfGeneralVal_spec (g : Gen σ α) (p eps x : α) (s : σ) (heps : eps ≤ 1) :
    QPerfect p 1 false x (perfGeneralVal g p eps x s).1 := by
  intro hd
  have h2 := Int.floor_le (p * x)
  have h3 := Int.lt_floor_add_one (p * x)
  unfold perfGeneralVal
  simp only [trunc_nonneg _ hd, Bool.false_eq_true, if_false]
  split_ifs with hneg h1 hu h1 hu
  · refine ⟨⟨_, rfl⟩, ?_⟩
    rw [abs_sub_comm, abs_of_neg hneg]; linarith
  · exact ⟨⟨⌊p * x⌋ + 1, by push_cast; ring⟩, by rw [abs_le]; constructor <;> linarith⟩
  · exact ⟨⟨_, rfl⟩, by rw [abs_le]; constructor <;> linarith⟩
  · refine ⟨⟨_, rfl⟩, ?_⟩
    rw [abs_sub_comm, abs_of_nonneg (not_lt.mp hneg)]; linarith
  · exact ⟨⟨⌊p * x⌋ + 1, by push_cast; ring⟩, by rw [abs_le]; constructor <;> linarith⟩
  · exact ⟨⟨_, rfl⟩, by rw [abs_le]; constructor <;> linarith⟩

theorem splitPerfectGeneral_step (g : Gen σ α) (p eps : α) (heps : eps ≤ 1) (L : List Nat) :
    SplitStep (splitPerfectGeneral g p eps) L (fun _ => QPerfect p 1 false) := by
  intro acc i _
  exact ⟨_, _, splitPerfectGeneral_eq g p eps acc i, perfGeneralVal_spec g p eps _ _ heps⟩

end Steps

/-! ### The partitions -/

section Partitions
variable {σ α : Type} [Field α] [LinearOrder α] [IsStrictOrderedRing α] [FloorRing α] [Transc α] [Trunc α]
  [C20.LawfulTrunc α]

/-- what a partition of `state` into `d`, `e` must satisfy, species by species: those in `L1` are split with
shares satisfying `Q1`, those in `L2` with shares satisfying `Q2`, all others are duplicated. -/
def PartitionSpec (state d e : List α) (L1 L2 : List Nat) (Q1 Q2 : α → α → Prop) : Prop :=
  d.length = state.length ∧ e.length = state.length ∧
  ∀ i, i < state.length →
    (i ∈ L1 → vecGet d i + vecGet e i = vecGet state i ∧ Q1 (vecGet state i) (vecGet d i)) ∧
    (i ∈ L2 → vecGet d i + vecGet e i = vecGet state i ∧ Q2 (vecGet state i) (vecGet d i)) ∧
    (i ∉ L1 → i ∉ L2 → vecGet d i = vecGet state i ∧ vecGet e i = vecGet state i)

theorem two_phase (f1 f2 : List α × List α × σ → Nat → List α × List α × σ) (Q1 Q2 : α → α → Prop) (L1 L2 : List Nat)
    (h1 : SplitStep f1 L1 (fun _ => Q1)) (h2 : SplitStep f2 L2 (fun _ => Q2)) (hnd : (L1 ++ L2).Nodup)
    (state : List α) (s : σ) :
    PartitionSpec state (L2.foldl f2 (L1.foldl f1 (state, state, s))).1 (L2.foldl f2 (L1.foldl f1 (state, state, s))).2.1
      L1 L2 Q1 Q2 := by
  have hnd' := List.nodup_append.mp hnd
  let Q : Nat → α → α → Prop := fun i x d => (i ∈ L1 → Q1 x d) ∧ (i ∈ L2 → Q2 x d)
  have hs1 : SplitStep f1 L1 Q := by
    intro acc i hi
    obtain ⟨dv, s', he, hq⟩ := h1 acc i hi
    exact ⟨dv, s', he, fun _ => hq, fun hi2 => absurd rfl (hnd'.2.2 i hi i hi2)⟩
  have hs2 : SplitStep f2 L2 Q := by
    intro acc i hi
    obtain ⟨dv, s', he, hq⟩ := h2 acc i hi
    exact ⟨dv, s', he, fun hi1 => absurd rfl (hnd'.2.2 i hi1 i hi), fun _ => hq⟩
  have p1 := fold_split f1 Q state L1 hs1 hnd'.1 [] L1 (state, state, s) (fun _ h => h) hnd'.1 (by simp)
    (splitInv_init state s Q)
  have p1' : SplitInv state (L1.foldl f1 (state, state, s)) (· ∈ L1) Q :=
    splitInv_mono p1 (by intro i; simp) (fun _ _ _ _ h => h)
  have p2 := fold_split f2 Q state L2 hs2 hnd'.2.1 L1 L2 _ (fun _ h => h) hnd'.2.1
    (fun i hi hi1 => hnd'.2.2 i hi1 i hi rfl) p1'
  refine ⟨p2.lenD, p2.lenE, ?_⟩
  intro i hi
  refine ⟨fun h => ?_, fun h => ?_, fun n1 n2 => ?_⟩
  · have := p2.split i hi (Or.inl h); exact ⟨this.1, this.2.1 h⟩
  · have := p2.split i hi (Or.inr h); exact ⟨this.1, this.2.2 h⟩
  · exact p2.dup i hi (by rintro (h | h); exacts [n1 h, n2 h])

/-- **PerfectBinomialVolumeSplitter**: every species is conserved, the first daughter receiving a natural
number of at most `int(x + 0.5)` molecules; the volume is halved. -/
theorem partitionPerfectBinomial_spec (g : Gen σ α) (state : List α) (vol : α) (s : σ) :
    let out := (partitionPerfectBinomial g state vol s).1
    PartitionSpec state out.dState out.eState [] (List.range state.length) (fun _ _ => True) QBin ∧
      out.dVol + out.eVol = vol := by
  intro out
  refine ⟨?_, ?_⟩
  · have := two_phase (σ := σ) (fun acc _ => acc) (splitBinomial g (1 / ((2 : Nat) : α))) (fun _ _ => True) QBin []
      (List.range state.length) (by intro _ _ h; simp at h) (splitBinomial_step g _ _) (by simpa using List.nodup_range)
      state s
    exact this
  · show vol / ((2 : Nat) : α) + vol / ((2 : Nat) : α) = vol
    push_cast; ring

/-- the share `p` of the first daughter in `GeneralVolumeSplitter`. -/
def generalP (g : Gen σ α) (noise : α) (s : σ) : α := 1 / ((2 : Nat) : α) - (g s).1 * noise

/-- **GeneralVolumeSplitter** (each species named at most once across the perfect and binomial lists):
perfect and binomial species are conserved, a perfect share is a whole number within one molecule of
`p * x`, a binomial share is a natural number of at most `int(x + 0.5)`, every other species is copied to both
daughters, and the volumes are `p * vol` and `(1 - p) * vol`. -/
theorem partitionGeneral_spec (g : Gen σ α) (noise eps : α) (perfect binomial : List Nat) (state : List α) (vol : α)
    (s : σ) (hnd : (perfect ++ binomial).Nodup) (heps : eps ≤ 1) :
    let out := (partitionGeneral g noise eps perfect binomial state vol s).1
    let p := generalP g noise s
    PartitionSpec state out.dState out.eState perfect binomial (QPerfect p 1 false) QBin ∧
      out.dVol = vol * p ∧ out.eVol = vol * (1 - p) ∧ out.dVol + out.eVol = vol := by
  intro out p
  refine ⟨?_, rfl, rfl, ?_⟩
  · exact two_phase (splitPerfectGeneral g p eps) (splitBinomial g p) _ _ perfect binomial
      (splitPerfectGeneral_step g p eps heps _) (splitBinomial_step g p _) hnd state (g s).2
  · show vol * p + vol * (1 - p) = vol
    ring

/-- the share `p` of the first daughter in `LineageVolumeSplitter`. -/
def lineageP (g : Gen σ α) (vs : VolSplit) (noise : α) (s : σ) : α :=
  match vs with
  | .binomial => 1 / ((2 : Nat) : α) - (g s).1 * noise / ((2 : Nat) : α)
  | .duplicate => 1
  | .perfect => 1 / ((2 : Nat) : α)

/-- **LineageVolumeSplitter** (without custom functions; its constructor names every species exactly once):
conservation and shares as for the general splitter with the strict bound `|d - p x| < 1`; volumes
`p vol`, `(1 - p) vol` that sum to the mother's — or two copies of the mother's volume when the volume is
duplicated. -/
theorem partitionLineage_spec (g : Gen σ α) (vs : VolSplit) (noise eps : α) (perfect binomial : List Nat)
    (state : List α) (vol : α) (s : σ) (hnd : (perfect ++ binomial).Nodup) (heps : 0 ≤ eps) :
    let out := (partitionLineage g vs noise eps perfect binomial state vol s).1
    let p := lineageP g vs noise s
    PartitionSpec state out.dState out.eState perfect binomial (QPerfect p 1 true) QBin ∧
      (vs = .duplicate → out.dVol = vol ∧ out.eVol = vol) ∧
      (vs ≠ .duplicate → out.dVol = vol * p ∧ out.eVol = vol * (1 - p) ∧ out.dVol + out.eVol = vol) := by
  intro out p
  cases vs
  · refine ⟨?_, by simp, fun _ => ⟨rfl, rfl, ?_⟩⟩
    · exact two_phase (splitPerfectLineage g p eps) (splitBinomial g p) _ _ perfect binomial
        (splitPerfectLineage_step g p eps heps _) (splitBinomial_step g p _) hnd state (g s).2
    · show vol * p + vol * (1 - p) = vol
      ring
  · refine ⟨?_, fun _ => ⟨rfl, rfl⟩, by simp⟩
    exact two_phase (splitPerfectLineage g p eps) (splitBinomial g p) _ _ perfect binomial
      (splitPerfectLineage_step g p eps heps _) (splitBinomial_step g p _) hnd state s
  · refine ⟨?_, by simp, fun _ => ⟨rfl, ?_, ?_⟩⟩
    · exact two_phase (splitPerfectLineage g p eps) (splitBinomial g p) _ _ perfect binomial
        (splitPerfectLineage_step g p eps heps _) (splitBinomial_step g p _) hnd state s
    · show vol * (1 / ((2 : Nat) : α)) = vol * (1 - 1 / ((2 : Nat) : α))
      push_cast; ring
    · show vol * (1 / ((2 : Nat) : α)) + vol * (1 / ((2 : Nat) : α)) = vol
      push_cast; ring

/-- **positive volumes**: with a uniform in `[0, 1]` and a partition noise in `[0, 1]` whose product is below 1
(always so for noise < 1), both daughters of a cell of positive volume have positive volume. -/
theorem partitionLineage_volume_pos (g : Gen σ α) (vs : VolSplit) (noise eps : α) (perfect binomial : List Nat)
    (state : List α) (vol : α) (s : σ) (hv : 0 < vol) (hu0 : 0 ≤ (g s).1) (hn0 : 0 ≤ noise) (hun : (g s).1 * noise < 1) :
    0 < (partitionLineage g vs noise eps perfect binomial state vol s).1.dVol ∧
    0 < (partitionLineage g vs noise eps perfect binomial state vol s).1.eVol := by
  have hprod : 0 ≤ (g s).1 * noise := mul_nonneg hu0 hn0
  cases vs
  · constructor
    · show 0 < vol * (1 / ((2 : Nat) : α) - (g s).1 * noise / ((2 : Nat) : α))
      apply mul_pos hv; push_cast; linarith
    · show 0 < vol * (1 - (1 / ((2 : Nat) : α) - (g s).1 * noise / ((2 : Nat) : α)))
      apply mul_pos hv; push_cast; linarith
  · exact ⟨hv, hv⟩
  · constructor <;> (show 0 < vol * (1 / ((2 : Nat) : α)); apply mul_pos hv; push_cast; norm_num)

/-- a binomially split species with a whole, nonnegative count leaves both daughters whole, nonnegative
counts. -/
theorem QBin_nat (m : Nat) (dv : α) (h : QBin (m : α) dv) : ∃ k : Nat, dv = (k : α) ∧ k ≤ m := by
  obtain ⟨k, hk, hle⟩ := h
  refine ⟨k, hk, ?_⟩
  have h0 : (0 : α) ≤ (m : α) + 1 / 2 := by positivity
  rw [trunc_nonneg _ h0] at hle
  have : ⌊(m : α) + 1 / 2⌋ = (m : Int) := by
    rw [Int.floor_eq_iff]; push_cast; constructor <;> linarith
  rw [this] at hle
  simpa using hle

end Partitions

/-! ### The single-cell loop: every reported row was written, with positive volume -/

section CellLoop
variable {σ α : Type} [Field α] [LinearOrder α] [IsStrictOrderedRing α] [Transc α] [Trunc α]

/-- the volume stored in row `i` of the result arrays. -/
def rowVol (res : List (List α × α)) (i : Nat) : α := (res.getD i ([], 0)).2

theorem writeRows_length (res : List (List α × α)) (idx k : Nat) (row : List α × α) :
    (writeRows res idx k row).length = res.length := by
  unfold writeRows
  induction k with
  | zero => simp
  | succ k ih => rw [List.range_succ, List.foldl_append]; simp [ih]

theorem writeRows_get (res : List (List α × α)) (idx k : Nat) (row : List α × α) (i : Nat) (d : List α × α) :
    (writeRows res idx k row).getD i d = if idx ≤ i ∧ i < idx + k ∧ i < res.length then row else res.getD i d := by
  induction k with
  | zero =>
    have : ¬ (idx ≤ i ∧ i < idx + 0 ∧ i < res.length) := by rintro ⟨a, b, _⟩; omega
    rw [if_neg this]
    simp [writeRows]
  | succ k ih =>
    have hlen := writeRows_length res idx k row
    unfold writeRows at ih hlen ⊢
    rw [List.range_succ, List.foldl_append]
    simp only [List.foldl_cons, List.foldl_nil]
    by_cases hik : i = idx + k
    · subst hik
      by_cases hl : idx + k < res.length
      · simp only [List.getD_eq_getElem?_getD]
        rw [List.getElem?_set_self (by rw [hlen]; exact hl)]
        simp [hl]
      · have hl' : res.length ≤ idx + k := not_lt.mp hl
        simp only [List.getD_eq_getElem?_getD] at ih ⊢
        rw [List.getElem?_set_self']
        simp [hlen, hl, List.getElem?_eq_none hl']
    · simp only [List.getD_eq_getElem?_getD] at ih ⊢
      rw [List.getElem?_set_ne (fun h => hik h.symm), ih]
      by_cases h1 : idx ≤ i ∧ i < idx + k ∧ i < res.length
      · have : idx ≤ i ∧ i < idx + (k + 1) ∧ i < res.length := ⟨h1.1, by omega, h1.2.2⟩
        simp [h1, this]
      · have : ¬ (idx ≤ i ∧ i < idx + (k + 1) ∧ i < res.length) := by
          rintro ⟨a, b, c⟩; exact h1 ⟨a, by omega, c⟩
        simp [h1, this]

/-- what holds of the loop state of `SimulateSingleCell` at the head of every iteration. -/
structure CellInv (n : Nat) (s : CellLoop σ α) : Prop where
  len : s.results.length = n
  volPos : s.raised = false → 0 < s.vol
  written : ∀ i, i < s.idx → i < n → 0 < rowVol s.results i
  flags : s.stop = false → s.divided < 0 ∧ s.dead < 0
  stopped : s.stop = true → (s.divided ≥ 0 ∨ s.dead ≥ 0)

theorem written_after (n : Nat) (s : CellLoop σ α) (h : CellInv n s) (hr : s.raised = false) (k : Nat) (x : List α) :
    ∀ i, i < s.idx + k → i < n → 0 < rowVol (writeRows s.results s.idx k (x, s.vol)) i := by
  intro i hi hn
  unfold rowVol
  rw [writeRows_get]
  split_ifs with hc
  · exact h.volPos hr
  · have : i < s.idx := by
      by_contra hh
      exact hc ⟨not_lt.mp hh, hi, by rw [h.len]; exact hn⟩
    exact h.written i this hn

theorem cellRecorded_inv (times : List α) (n : Nat) (s : CellLoop σ α) (pre : CellPre σ α) (tm : CellTiming σ α)
    (h : CellInv n s) (hr : s.raised = false) (hs : s.stop = false) (hd : pre.dead < 0) (hv : pre.dv < 0) :
    CellInv n (cellRecorded times s pre tm) ∧ (cellRecorded times s pre tm).raised = false ∧
      (cellRecorded times s pre tm).stop = false := by
  refine ⟨⟨?_, ?_, ?_, ?_, ?_⟩, hr, hs⟩
  · exact (writeRows_length _ _ _ _).trans h.len
  · intro _; exact h.volPos hr
  · exact written_after n s h hr _ _
  · intro _; exact ⟨hv, hd⟩
  · intro h'; exact absurd (hs.symm.trans h') (by simp)

theorem cellVolStep_inv (g : Gen σ α) (m : CellModel α) (dt : α) (n : Nat) (b : CellLoop σ α) (h : CellInv n b) :
    CellInv n (cellVolStep g m dt b) := by
  unfold cellVolStep
  refine ⟨h.len, ?_, h.written, h.flags, h.stopped⟩
  intro hr
  have : ¬ (applyVolRules g m.twoPi m.volRules b.x b.p b.vol b.t dt b.g).1 ≤ 0 := by simpa using hr
  exact not_le.mp this

theorem cellEventStep_inv (g : Gen σ α) (m : CellModel α) (a : List α) (Lambda : α) (n : Nat) (b : CellLoop σ α)
    (h : CellInv n b) (hs : b.stop = false) : CellInv n (cellEventStep g m a Lambda b) := by
  unfold cellEventStep
  simp only
  split_ifs
  · exact ⟨h.len, h.volPos, h.written, h.flags, h.stopped⟩
  · exact ⟨h.len, h.volPos, h.written, h.flags, h.stopped⟩
  · refine ⟨h.len, ?_, h.written, h.flags, h.stopped⟩
    intro hr
    simp only [decide_eq_false_iff_not, not_le] at hr
    exact hr
  · exact ⟨h.len, h.volPos, h.written, fun h' => by simp at h', fun _ => Or.inl (Int.natCast_nonneg _)⟩
  · exact ⟨h.len, h.volPos, h.written, fun h' => by simp at h', fun _ => Or.inr (Int.natCast_nonneg _)⟩

/-- **loop invariant**: one iteration from a running state keeps every written row's volume positive, the
current volume positive unless an exception is being raised, and the division/death flags set exactly when the
loop has been left. -/
theorem cellIter_inv (g : Gen σ α) (m : CellModel α) (times : List α) (dt final t0 v0 : α) (n : Nat)
    (s : CellLoop σ α) (h : CellInv n s) (hr : s.raised = false) (hs : s.stop = false) :
    CellInv n (cellIter g m times dt final t0 v0 s) := by
  unfold cellIter
  simp only
  split_ifs with h1 h2 h3
  · exact ⟨h.len, h.volPos, h.written, fun h' => by simp at h', fun _ => Or.inr h1.1⟩
  · refine ⟨h.len, h.volPos, h.written, fun h' => by simp at h', fun _ => ?_⟩
    rcases h2 with h2 | h2
    · exact Or.inr h2
    · exact Or.inl h2
  · have hd : (cellPre g m dt t0 v0 s).dead < 0 := by
      by_contra hc; exact h2 (Or.inl (not_lt.mp hc))
    have hv : (cellPre g m dt t0 v0 s).dv < 0 := by
      by_contra hc; exact h2 (Or.inr (not_lt.mp hc))
    exact cellVolStep_inv g m dt n _ (cellRecorded_inv times n s _ _ h hr hs hd hv).1
  · have hd : (cellPre g m dt t0 v0 s).dead < 0 := by
      by_contra hc; exact h2 (Or.inl (not_lt.mp hc))
    have hv : (cellPre g m dt t0 v0 s).dv < 0 := by
      by_contra hc; exact h2 (Or.inr (not_lt.mp hc))
    have := cellRecorded_inv times n s (cellPre g m dt t0 v0 s) (cellTiming g m dt final s (cellPre g m dt t0 v0 s)) h hr hs hd hv
    exact cellEventStep_inv g m _ _ n _ this.1 this.2.2

/-- the invariant holds whenever the loop is left (any number of iterations). -/
theorem runCell_inv (g : Gen σ α) (m : CellModel α) (times : List α) (dt final t0 v0 : α) (n : Nat) :
    ∀ (fuel : Nat) (s s' : CellLoop σ α), CellInv n s →
      runCell (cellIter g m times dt final t0 v0) n fuel s = some s' → CellInv n s' ∧ s'.running n = false := by
  intro fuel
  induction fuel with
  | zero =>
    intro s s' h hrun
    unfold runCell at hrun
    split_ifs at hrun with hc
    cases hrun
    exact ⟨h, by simpa using hc⟩
  | succ fuel ih =>
    intro s s' h hrun
    unfold runCell at hrun
    split_ifs at hrun with hc
    · have hc' : s.idx < n ∧ s.stop = false ∧ s.raised = false ∧ s.bad = false := by
        simpa [CellLoop.running, and_assoc] using hc
      exact ih _ _ (cellIter_inv g m times dt final t0 v0 n s h hc'.2.2.1 hc'.2.1) hrun
    · cases hrun
      exact ⟨h, by simpa using hc⟩

theorem take_vols_pos (res : List (List α × α)) (len : Nat)
    (h : ∀ i, i < len → i < res.length → 0 < rowVol res i) : ∀ v ∈ (res.take len).map (·.2), 0 < v := by
  intro v hv
  obtain ⟨row, hrow, rfl⟩ := List.mem_map.mp hv
  obtain ⟨i, hi, hget⟩ := List.mem_iff_getElem.mp hrow
  have hi' : i < len ∧ i < res.length := by simpa [List.length_take] using hi
  have := h i hi'.1 hi'.2
  unfold rowVol at this
  rw [List.getD_eq_getElem?_getD, List.getElem?_eq_getElem hi'.2] at this
  rw [List.getElem_take] at hget
  rw [← hget]
  simpa using this

theorem cellPush_flags (times : List α) (s : CellLoop σ α) :
    (cellPush times s).raised = s.raised ∧ (cellPush times s).bad = s.bad ∧
      (cellPush times s).results.length = s.results.length := by
  unfold cellPush
  split_ifs <;> simp

theorem cellFinish_flags (times : List α) (s : CellLoop σ α) :
    (cellFinish times s).1.raised = s.raised ∧ (cellFinish times s).1.bad = s.bad ∧
      (cellFinish times s).1.results.length = s.results.length := by
  unfold cellFinish
  split_ifs
  · exact cellPush_flags times s
  · exact cellPush_flags times s
  · exact ⟨rfl, rfl, rfl⟩

theorem cellPush_spec (times : List α) (n : Nat) (s : CellLoop σ α) (hinv : CellInv n s) (hr : s.raised = false) :
    1 ≤ (cellPush times s).idx ∧
      ∀ i, i < (cellPush times s).idx → i < n → 0 < rowVol (cellPush times s).results i := by
  unfold cellPush
  split_ifs with hpush
  · refine ⟨by simp, ?_⟩
    intro i hi hin
    simp only at hi ⊢
    unfold rowVol
    rw [List.getD_eq_getElem?_getD]
    by_cases hie : i = s.idx
    · subst hie
      rw [List.getElem?_set_self (by rw [hinv.len]; exact hin)]
      exact hinv.volPos hr
    · rw [List.getElem?_set_ne (fun h => hie h.symm)]
      have := hinv.written i (by omega) hin
      unfold rowVol at this
      rwa [List.getD_eq_getElem?_getD] at this
  · have hne : s.idx ≠ 0 := fun h => hpush (Or.inl h)
    exact ⟨by omega, fun i hi hin => hinv.written i hi hin⟩

theorem cellFinish_spec (times : List α) (n : Nat) (s : CellLoop σ α) (hinv : CellInv n s) (hn : times.length = n)
    (h1 : 1 ≤ n) (hr : s.raised = false) (hb : s.bad = false) (hstop : s.running n = false) :
    1 ≤ (cellFinish times s).2 ∧ (cellFinish times s).2 ≤ n ∧
      ∀ i, i < (cellFinish times s).2 → i < n → 0 < rowVol (cellFinish times s).1.results i := by
  have hp := cellPush_spec times n s hinv hr
  unfold cellFinish
  split_ifs with hdd h0
  · omega
  · simp only [hn]
    exact ⟨by omega, by omega, fun i hi hin => hp.2 i (by omega) hin⟩
  · simp only [hn]
    refine ⟨h1, le_refl _, ?_⟩
    intro i _ hin
    have hns : s.stop = false := by
      by_contra hc
      have := hinv.stopped (by simpa using hc)
      exact hdd this
    have : ¬ s.idx < n := by
      intro hlt
      have : s.running n = true := by simp [CellLoop.running, hlt, hns, hr, hb]
      rw [this] at hstop; simp at hstop
    exact hinv.written i (by omega) hin

/-- **every reported row was written, with positive volume** (`SimulateSingleCell`, any model, grid of at least
one point, cell, stream, number of iterations): when the call returns a result (no exception), the time axis,
the rows and the volume trace have the same length, which is at least one, the time axis is an initial piece
of the grid, and every reported volume is positive — in particular no row is reported that the recording
loop (or the final push at division or death) did not write, whatever made the loop stop. -/
theorem cell_reported_positive (g : Gen σ α) (m : CellModel α) (p0 times : List α) (v : Cell α) (fuel : Nat) (gs : σ)
    (hn : 1 ≤ times.length) :
    let r := (simulateCell g m p0 times v fuel gs).1
    r.raised = false → r.bad = false →
      r.rows.length = r.times.length ∧ r.vols.length = r.times.length ∧ 1 ≤ r.times.length ∧
      r.times = times.take r.times.length ∧ ∀ x ∈ r.vols, 0 < x := by
  intro r
  revert r
  unfold simulateCell
  simp only
  split_ifs with hbadgrid
  · intro h; simp at h
  · have hvol : 0 < v.vol := by
      by_contra hc; exact hbadgrid (Or.inr (not_lt.mp hc))
    cases hrun : runCell (cellIter g m times (times.getD 1 0 - times.getD 0 0) (times.getD (times.length - 1) 0) v.t0 v.v0)
        times.length fuel (cellInit m p0 times v gs) with
    | none => intro _ hb; simp at hb
    | some s =>
      have hinit : CellInv times.length (cellInit m p0 times v gs) :=
        ⟨by simp [cellInit], fun _ => hvol, fun i hi => by simp [cellInit] at hi, fun _ => by simp [cellInit],
         fun h => by simp [cellInit] at h⟩
      obtain ⟨hinv, hstop⟩ := runCell_inv g m times _ _ _ _ _ fuel _ s hinit hrun
      have hfl := cellFinish_flags times s
      simp only
      intro hr hb
      rw [hfl.1] at hr
      rw [hfl.2.1] at hb
      obtain ⟨hlen1, hle, hfin⟩ := cellFinish_spec times _ s hinv rfl hn hr hb hstop
      have hlenres := hfl.2.2.trans hinv.len
      refine ⟨by simp [hlenres], by simp [hlenres], ?_, ?_, ?_⟩
      · simp only [List.length_take]; omega
      · simp [List.length_take, hle]
      · apply take_vols_pos
        intro i hi hin
        exact hfin i hi (by rw [hlenres] at hin; exact hin)

end CellLoop

/-! ### The lineage work list -/

section Forest
variable {κ ρ γ : Type}

/-- what holds of the lineage and the queue of `SimulateCellLineage` at every turn. `fin` reads the final
cell state off a result (`get_final_cell_state`). -/
structure ForestInv (fin : ρ → κ) (split : κ → γ → (κ × κ) × γ) (sim : κ → κ → γ → (ρ × κ × Bool) × γ)
    (f : Forest κ ρ) : Prop where
  /-- a cell that names a mother is one of the two daughters that mother lists -/
  up : ∀ (i : Nat) (nd : Node ρ) (p : Nat), f.nodes[i]? = some nd → nd.parent = some p →
    ∃ (pn : Node ρ) (a b : Nat), f.nodes[p]? = some pn ∧ pn.daughters = some (a, b) ∧ (i = a ∨ i = b)
  /-- the daughters a mother lists are two different cells of the lineage that both name her as their mother -/
  down : ∀ (p : Nat) (pn : Node ρ) (a b : Nat), f.nodes[p]? = some pn → pn.daughters = some (a, b) →
    a ≠ b ∧ ∃ (na nb : Node ρ), f.nodes[a]? = some na ∧ f.nodes[b]? = some nb ∧ na.parent = some p ∧ nb.parent = some p
  /-- every daughter was simulated from one of the two parts of a partition of her mother's final state -/
  born : ∀ (i : Nat) (nd : Node ρ) (p : Nat), f.nodes[i]? = some nd → nd.parent = some p →
    ∃ (pn : Node ρ) (c c' : γ), f.nodes[p]? = some pn ∧
      (nd.result = (sim (fin pn.result) (split (fin pn.result) c).1.1 c').1.1 ∨
       nd.result = (sim (fin pn.result) (split (fin pn.result) c).1.2 c').1.1)
  /-- queue entries point into the lineage, carry the final state of their cell, and no cell is queued twice -/
  queued : ∀ (j : Nat) (cs : κ) (sid : Nat), f.queue[j]? = some (cs, sid) →
    ∃ (nd : Node ρ), f.nodes[sid]? = some nd ∧ cs = fin nd.result ∧ (f.pos ≤ j → nd.daughters = none)
  distinct : (f.queue.map (·.2)).Nodup

theorem getElem?_modify_daughters (nodes : List (Node ρ)) (sid i : Nat) (d : Nat × Nat) (nd : Node ρ)
    (h : (nodes.modify sid (fun nd => { nd with daughters := some d }))[i]? = some nd) :
    ∃ nd0, nodes[i]? = some nd0 ∧ nd.result = nd0.result ∧ nd.parent = nd0.parent ∧
      nd.daughters = if i = sid then some d else nd0.daughters := by
  rw [List.getElem?_modify] at h
  by_cases his : sid = i
  · subst his
    cases hn : nodes[sid]? with
    | none => simp [hn] at h
    | some nd0 =>
      simp [hn] at h
      exact ⟨nd0, rfl, by rw [← h], by rw [← h], by rw [← h]; simp⟩
  · cases hn : nodes[i]? with
    | none => simp [hn, his] at h
    | some nd0 =>
      simp [hn, his] at h
      have : ¬ i = sid := fun hh => his hh.symm
      exact ⟨nd0, rfl, by rw [h], by rw [h], by rw [h]; simp [this]⟩

theorem modify_get_of (nodes : List (Node ρ)) (sid i : Nat) (d : Nat × Nat) (nd0 : Node ρ) (h : nodes[i]? = some nd0) :
    (nodes.modify sid (fun nd => { nd with daughters := some d }))[i]? =
      some { nd0 with daughters := if i = sid then some d else nd0.daughters } := by
  rw [List.getElem?_modify, h]
  by_cases his : sid = i
  · subst his; simp
  · have : ¬ i = sid := fun hh => his hh.symm
    simp [his, this]

theorem get_appended (M : List (Node ρ)) (n1 n2 : Node ρ) (i : Nat) :
    (M ++ [n1, n2])[i]? = if i < M.length then M[i]? else if i = M.length then some n1
      else if i = M.length + 1 then some n2 else none := by
  by_cases h : i < M.length
  · simp [h, List.getElem?_append_left h]
  · rw [List.getElem?_append_right (not_lt.mp h)]
    simp only [h, if_false]
    by_cases h1 : i = M.length
    · simp [h1]
    · by_cases h2 : i = M.length + 1
      · simp [h2]
      · have : 2 ≤ i - M.length := by omega
        simp only [h1, h2, if_false]
        rw [List.getElem?_eq_none]
        simpa using this

/-- **one turn of the work list keeps the lineage consistent** (any fate function, splitter, cell simulator). -/
theorem forestStep_inv (fin : ρ → κ) (fate : κ → Fate) (split : κ → γ → (κ × κ) × γ)
    (sim : κ → κ → γ → (ρ × κ × Bool) × γ) (hfin : ∀ cs d c, (sim cs d c).1.2.1 = fin (sim cs d c).1.1)
    (f f' : Forest κ ρ) (c c' : γ) (h : ForestInv fin split sim f)
    (hstep : forestStep fate split sim f c = some (f', c')) : ForestInv fin split sim f' := by
  unfold forestStep at hstep
  cases hq : f.queue[f.pos]? with
  | none => simp [hq] at hstep
  | some e =>
    obtain ⟨cs, sid⟩ := e
    simp only [hq] at hstep
    obtain ⟨nds, hnds, hcs, hnone⟩ := h.queued f.pos cs sid hq
    have hnone := hnone (le_refl _)
    have hsidlt : sid < f.nodes.length := by
      by_contra hc; rw [List.getElem?_eq_none (not_lt.mp hc)] at hnds; cases hnds
    have hskip : ForestInv fin split sim { f with pos := f.pos + 1 } :=
      ⟨h.up, h.down, h.born, fun j cs sid hj => by
        obtain ⟨nd, a, b, d⟩ := h.queued j cs sid hj
        exact ⟨nd, a, b, fun hle => d (by simp only at hle; omega)⟩, h.distinct⟩
    cases hfate : fate cs with
    | done => simp only [hfate] at hstep; cases hstep; exact hskip
    | dead => simp only [hfate] at hstep; cases hstep; exact hskip
    | tooFast => simp only [hfate] at hstep; cases hstep; exact hskip
    | unreachable => simp only [hfate] at hstep; cases hstep; exact hskip
    | divide =>
      simp only [hfate] at hstep
      cases hstep
      -- names
      set d1 := (split cs c).1.1 with hd1
      set d2 := (split cs c).1.2 with hd2
      set c1 := (split cs c).2 with hc1
      set o1 := sim cs d1 c1 with ho1
      set o2 := sim cs d2 o1.2 with ho2
      set N := f.nodes.length with hN
      set M := f.nodes.modify sid (fun nd => { nd with daughters := some (N, N + 1) }) with hM
      have hMlen : M.length = N := by rw [hM, List.length_modify]
      set n1 : Node ρ := { result := o1.1.1, parent := some sid, daughters := none } with hn1
      set n2 : Node ρ := { result := o2.1.1, parent := some sid, daughters := none } with hn2
      have hget := get_appended M n1 n2
      have hMsid : M[sid]? = some { nds with daughters := some (N, N + 1) } := by
        rw [hM, modify_get_of _ _ _ _ _ hnds]; simp
      have hMother : ∀ (i : Nat) (nd0 : Node ρ), f.nodes[i]? = some nd0 → i ≠ sid → M[i]? = some nd0 := by
        intro i nd0 h0 hne
        rw [hM, modify_get_of _ _ _ _ _ h0]; simp [hne]
      have hlt_of : ∀ (i : Nat) (nd : Node ρ), f.nodes[i]? = some nd → i < N := by
        intro i nd h0
        by_contra hc; rw [List.getElem?_eq_none (not_lt.mp hc)] at h0; cases h0
      refine ⟨?_, ?_, ?_, ?_, ?_⟩
      · -- up
        intro i nd p hi hp
        simp only at hi
        rw [hget, hMlen] at hi
        by_cases hiN : i < N
        · simp only [hiN, if_true] at hi
          obtain ⟨nd0, h0, _, hpar, _⟩ := getElem?_modify_daughters _ _ _ _ _ hi
          obtain ⟨pn, a, b, hpn, hda, hab⟩ := h.up i nd0 p h0 (hpar ▸ hp)
          have hpne : p ≠ sid := by
            intro hh; subst hh
            rw [hnds] at hpn; cases hpn; rw [hnone] at hda; cases hda
          refine ⟨pn, a, b, ?_, hda, hab⟩
          simp only
          rw [hget, hMlen]; simp only [hlt_of p pn hpn, if_true]
          exact hMother p pn hpn hpne
        · simp only [hiN, if_false] at hi
          have hnd : nd.parent = some sid ∧ (i = N ∨ i = N + 1) := by
            by_cases h1 : i = N
            · simp only [h1, if_true] at hi; cases hi; exact ⟨rfl, Or.inl h1⟩
            · by_cases h2 : i = N + 1
              · simp only [h1, h2, if_true, if_false] at hi
                have : ¬ (N + 1 = N) := by omega
                simp only [this, if_false] at hi; cases hi; exact ⟨rfl, Or.inr h2⟩
              · simp [h1, h2] at hi
          have : p = sid := by rw [hnd.1] at hp; cases hp; rfl
          subst this
          refine ⟨{ nds with daughters := some (N, N + 1) }, N, N + 1, ?_, rfl, hnd.2⟩
          simp only
          rw [hget, hMlen]; simp only [hsidlt, if_true]
          exact hMsid
      · -- down
        intro p pn a b hp hda
        simp only at hp
        rw [hget, hMlen] at hp
        by_cases hpN : p < N
        · simp only [hpN, if_true] at hp
          obtain ⟨nd0, h0, _, _, hdau⟩ := getElem?_modify_daughters _ _ _ _ _ hp
          by_cases hps : p = sid
          · simp only [hps, if_true] at hdau
            rw [hdau] at hda; cases hda
            refine ⟨by omega, n1, n2, ?_, ?_, by rw [hps], by rw [hps]⟩
            · simp only; rw [hget, hMlen]; simp
            · simp only; rw [hget, hMlen]; simp
          · simp only [hps, if_false] at hdau
            obtain ⟨hab, na, nb, hna, hnb, hpa, hpb⟩ := h.down p nd0 a b h0 (hdau ▸ hda)
            have hcase : ∀ (x : Nat) (nx : Node ρ), f.nodes[x]? = some nx → nx.parent = some p →
                ∃ nx' : Node ρ, (M ++ [n1, n2])[x]? = some nx' ∧ nx'.parent = some p := by
              intro x nx hx hpx
              have hxlt := hlt_of x nx hx
              rw [hget, hMlen]; simp only [hxlt, if_true]
              rw [hM, modify_get_of _ _ _ _ _ hx]
              exact ⟨_, rfl, hpx⟩
            obtain ⟨na', hna', hpa'⟩ := hcase a na hna hpa
            obtain ⟨nb', hnb', hpb'⟩ := hcase b nb hnb hpb
            exact ⟨hab, na', nb', hna', hnb', hpa', hpb'⟩
        · simp only [hpN, if_false] at hp
          exfalso
          by_cases h1 : p = N
          · simp only [h1, if_true] at hp; cases hp; cases hda
          · by_cases h2 : p = N + 1
            · have : ¬ (N + 1 = N) := by omega
              simp only [h2, this, if_true, if_false] at hp; cases hp; cases hda
            · simp [h1, h2] at hp
      · -- born
        intro i nd p hi hp
        simp only at hi
        rw [hget, hMlen] at hi
        by_cases hiN : i < N
        · simp only [hiN, if_true] at hi
          obtain ⟨nd0, h0, hres, hpar, _⟩ := getElem?_modify_daughters _ _ _ _ _ hi
          obtain ⟨pn, cc, cc', hpn, hor⟩ := h.born i nd0 p h0 (hpar ▸ hp)
          have hplt := hlt_of p pn hpn
          refine ⟨{ pn with daughters := if p = sid then some (N, N + 1) else pn.daughters }, cc, cc', ?_, ?_⟩
          · simp only; rw [hget, hMlen]; simp only [hplt, if_true]
            rw [hM, modify_get_of _ _ _ _ _ hpn]
          · simp only; rw [hres]; exact hor
        · simp only [hiN, if_false] at hi
          by_cases h1 : i = N
          · simp only [h1, if_true] at hi; cases hi
            have : p = sid := by simp only [hn1] at hp; cases hp; rfl
            subst this
            refine ⟨{ nds with daughters := some (N, N + 1) }, c, c1, ?_, Or.inl ?_⟩
            · simp only; rw [hget, hMlen]; simp only [hsidlt, if_true]; exact hMsid
            · simp only [hn1, ← hcs, ho1, hd1]
          · by_cases h2 : i = N + 1
            · have : ¬ (N + 1 = N) := by omega
              simp only [h2, this, if_true, if_false] at hi; cases hi
              have : p = sid := by simp only [hn2] at hp; cases hp; rfl
              subst this
              refine ⟨{ nds with daughters := some (N, N + 1) }, c, o1.2, ?_, Or.inr ?_⟩
              · simp only; rw [hget, hMlen]; simp only [hsidlt, if_true]; exact hMsid
              · simp only [hn2, ← hcs, ho2, hd2]
            · simp [h1, h2] at hi
      · -- queued
        intro j cs' sid' hj
        simp only at hj ⊢
        by_cases hjl : j < f.queue.length
        · rw [List.getElem?_append_left hjl] at hj
          obtain ⟨nd, hnd, hcs', hdn⟩ := h.queued j cs' sid' hj
          have hlt := hlt_of sid' nd hnd
          refine ⟨{ nd with daughters := if sid' = sid then some (N, N + 1) else nd.daughters }, ?_, hcs', ?_⟩
          · rw [hget, hMlen]; simp only [hlt, if_true]
            rw [hM, modify_get_of _ _ _ _ _ hnd]
          · intro hle
            have hne : sid' ≠ sid := by
              intro hh
              have hnd' := h.distinct
              have e1 : (f.queue.map (·.2))[j]? = some sid' := by simp [hj]
              have e2 : (f.queue.map (·.2))[f.pos]? = some sid := by simp [hq]
              have : j = f.pos := by
                have hjl' : j < (f.queue.map (·.2)).length := by simpa using hjl
                have hpl' : f.pos < (f.queue.map (·.2)).length := by
                  by_contra hc; rw [List.getElem?_eq_none (not_lt.mp hc)] at e2; cases e2
                rw [List.getElem?_eq_getElem hjl'] at e1
                rw [List.getElem?_eq_getElem hpl'] at e2
                exact (List.getElem_inj hnd').mp (by
                  rw [Option.some.inj e1, Option.some.inj e2, hh])
              omega
            simp only [hne, if_false]
            exact hdn (by omega)
        · have hmem : (cs', sid') ∈ ((if o1.1.2.2 then [(o1.1.2.1, N)] else []) ++
              (if o2.1.2.2 then [(o2.1.2.1, N + 1)] else []) : List (κ × Nat)) := by
            rw [List.getElem?_append_right (not_lt.mp hjl)] at hj
            exact List.mem_of_getElem? hj
          have hcases : (cs' = o1.1.2.1 ∧ sid' = N) ∨ (cs' = o2.1.2.1 ∧ sid' = N + 1) := by
            rcases List.mem_append.mp hmem with hm | hm
            · by_cases hk : o1.1.2.2 = true
              · simp only [hk, if_true, List.mem_singleton, Prod.mk.injEq] at hm; exact Or.inl hm
              · simp [hk] at hm
            · by_cases hk : o2.1.2.2 = true
              · simp only [hk, if_true, List.mem_singleton, Prod.mk.injEq] at hm; exact Or.inr hm
              · simp [hk] at hm
          rcases hcases with ⟨e1, e2⟩ | ⟨e1, e2⟩
          · refine ⟨n1, ?_, ?_, fun _ => rfl⟩
            · rw [hget, hMlen, e2]; simp
            · rw [e1]; exact hfin cs d1 c1
          · refine ⟨n2, ?_, ?_, fun _ => rfl⟩
            · rw [hget, hMlen, e2]; simp
            · rw [e1]; exact hfin cs d2 o1.2
      · -- distinct
        simp only
        rw [List.map_append, List.nodup_append]
        refine ⟨h.distinct, ?_, ?_⟩
        · by_cases hk1 : o1.1.2.2 = true <;> by_cases hk2 : o2.1.2.2 = true <;> simp [hk1, hk2]
        · intro a ha b hb
          obtain ⟨⟨csa, sa⟩, hma, rfl⟩ := List.mem_map.mp ha
          obtain ⟨ja, hja, hgeta⟩ := List.mem_iff_getElem.mp hma
          obtain ⟨nd, hnd, _, _⟩ := h.queued ja csa sa (by rw [List.getElem?_eq_getElem hja, hgeta])
          have hlt := hlt_of sa nd hnd
          have hbN : b = N ∨ b = N + 1 := by
            by_cases hk1 : o1.1.2.2 = true <;> by_cases hk2 : o2.1.2.2 = true <;> simp [hk1, hk2] at hb <;> omega
          simp only
          omega

theorem addRoot_inv (fin : ρ → κ) (split : κ → γ → (κ × κ) × γ) (sim : κ → κ → γ → (ρ × κ × Bool) × γ)
    (f : Forest κ ρ) (h : ForestInv fin split sim f) (r : ρ) (cs : κ) (hcs : cs = fin r) :
    ForestInv fin split sim
      { nodes := f.nodes ++ [{ result := r, parent := none, daughters := none }],
        queue := f.queue ++ [(cs, f.nodes.length)], pos := f.pos } := by
  have hlt_of : ∀ (i : Nat) (nd : Node ρ), f.nodes[i]? = some nd → i < f.nodes.length := by
    intro i nd h0
    by_contra hc; rw [List.getElem?_eq_none (not_lt.mp hc)] at h0; cases h0
  have hold : ∀ (i : Nat) (nd : Node ρ), f.nodes[i]? = some nd →
      (f.nodes ++ [({ result := r, parent := none, daughters := none } : Node ρ)])[i]? = some nd := by
    intro i nd h0; rw [List.getElem?_append_left (hlt_of i nd h0)]; exact h0
  have hnew : ∀ (i : Nat) (nd : Node ρ),
      (f.nodes ++ [({ result := r, parent := none, daughters := none } : Node ρ)])[i]? = some nd →
      f.nodes[i]? = some nd ∨ (i = f.nodes.length ∧ nd = { result := r, parent := none, daughters := none }) := by
    intro i nd h0
    by_cases hi : i < f.nodes.length
    · rw [List.getElem?_append_left hi] at h0; exact Or.inl h0
    · rw [List.getElem?_append_right (not_lt.mp hi)] at h0
      by_cases h1 : i = f.nodes.length
      · subst h1; simp at h0; exact Or.inr ⟨rfl, h0.symm⟩
      · have : 1 ≤ i - f.nodes.length := by omega
        rw [List.getElem?_eq_none (by simpa using this)] at h0; cases h0
  refine ⟨?_, ?_, ?_, ?_, ?_⟩
  · intro i nd p hi hp
    rcases hnew i nd hi with h0 | ⟨_, h0⟩
    · obtain ⟨pn, a, b, hpn, hd, hab⟩ := h.up i nd p h0 hp
      exact ⟨pn, a, b, hold p pn hpn, hd, hab⟩
    · rw [h0] at hp; cases hp
  · intro p pn a b hp hd
    rcases hnew p pn hp with h0 | ⟨_, h0⟩
    · obtain ⟨hab, na, nb, hna, hnb, hpa, hpb⟩ := h.down p pn a b h0 hd
      exact ⟨hab, na, nb, hold a na hna, hold b nb hnb, hpa, hpb⟩
    · rw [h0] at hd; cases hd
  · intro i nd p hi hp
    rcases hnew i nd hi with h0 | ⟨_, h0⟩
    · obtain ⟨pn, c, c', hpn, hor⟩ := h.born i nd p h0 hp
      exact ⟨pn, c, c', hold p pn hpn, hor⟩
    · rw [h0] at hp; cases hp
  · intro j cs' sid hj
    by_cases hjl : j < f.queue.length
    · simp only at hj
      rw [List.getElem?_append_left hjl] at hj
      obtain ⟨nd, hnd, a, b⟩ := h.queued j cs' sid hj
      exact ⟨nd, hold sid nd hnd, a, b⟩
    · simp only at hj
      rw [List.getElem?_append_right (not_lt.mp hjl)] at hj
      have hmem := List.mem_of_getElem? hj
      simp only [List.mem_singleton, Prod.mk.injEq] at hmem
      refine ⟨{ result := r, parent := none, daughters := none }, ?_, by rw [hmem.1, hcs], fun _ => rfl⟩
      simp only
      rw [hmem.2, List.getElem?_append_right (le_refl _)]; simp
  · simp only
    rw [List.map_append, List.nodup_append]
    refine ⟨h.distinct, by simp, ?_⟩
    intro a ha b hb
    obtain ⟨⟨csa, sa⟩, hma, rfl⟩ := List.mem_map.mp ha
    obtain ⟨ja, hja, hgeta⟩ := List.mem_iff_getElem.mp hma
    obtain ⟨nd, hnd, _, _⟩ := h.queued ja csa sa (by rw [List.getElem?_eq_getElem hja, hgeta])
    have := hlt_of sa nd hnd
    simp only [List.map_cons, List.map_nil, List.mem_singleton] at hb
    simp only
    omega

theorem forestInit_inv (fin : ρ → κ) (split : κ → γ → (κ × κ) × γ) (sim : κ → κ → γ → (ρ × κ × Bool) × γ)
    (sim0 : κ → γ → (ρ × κ) × γ) (hfin0 : ∀ v c, (sim0 v c).1.2 = fin (sim0 v c).1.1) (cells : List κ) (c : γ) :
    ForestInv fin split sim (forestInit sim0 cells c).1 := by
  unfold forestInit
  have hempty : ForestInv fin split sim ({ nodes := [], queue := [], pos := 0 } : Forest κ ρ) :=
    ⟨fun i nd p h => by simp at h, fun p pn a b h => by simp at h, fun i nd p h => by simp at h,
     fun j cs sid h => by simp at h, by simp⟩
  suffices hgen : ∀ (acc : Forest κ ρ × γ), ForestInv fin split sim acc.1 → acc.1.pos = 0 →
      ForestInv fin split sim (cells.foldl (fun (acc : Forest κ ρ × γ) v =>
        (({ nodes := acc.1.nodes ++ [{ result := (sim0 v acc.2).1.1, parent := none, daughters := none }],
            queue := acc.1.queue ++ [((sim0 v acc.2).1.2, acc.1.nodes.length)], pos := 0 } : Forest κ ρ),
         (sim0 v acc.2).2)) acc).1 from hgen _ hempty rfl
  induction cells with
  | nil => intro acc h _; exact h
  | cons v rest ih =>
    intro acc h hpos
    rw [List.foldl_cons]
    apply ih _ _ rfl
    have := addRoot_inv fin split sim acc.1 h (sim0 v acc.2).1.1 (sim0 v acc.2).1.2 (hfin0 v acc.2)
    rw [hpos] at this
    exact this

/-- the invariant holds when the work list has been emptied (any number of turns). -/
theorem forestRun_inv (fin : ρ → κ) (fate : κ → Fate) (split : κ → γ → (κ × κ) × γ)
    (sim : κ → κ → γ → (ρ × κ × Bool) × γ) (hfin : ∀ cs d c, (sim cs d c).1.2.1 = fin (sim cs d c).1.1) :
    ∀ (fuel : Nat) (f f' : Forest κ ρ) (c c' : γ), ForestInv fin split sim f →
      forestRun fate split sim fuel f c = some (f', c') → ForestInv fin split sim f' := by
  intro fuel
  induction fuel with
  | zero =>
    intro f f' c c' h hrun
    unfold forestRun at hrun
    split_ifs at hrun
    cases hrun; exact h
  | succ fuel ih =>
    intro f f' c c' h hrun
    unfold forestRun at hrun
    cases hstep : forestStep fate split sim f c with
    | none => simp only [hstep] at hrun; cases hrun; exact h
    | some fc =>
      obtain ⟨f1, c1⟩ := fc
      simp only [hstep] at hrun
      exact ih f1 f' c1 c' (forestStep_inv fin fate split sim hfin f f1 c c1 h hstep) hrun

/-- **lineage records are consistent** (`SimulateCellLineage` over any cell simulator and splitter that
return their final cell state, any initial cells, any number of turns): in the lineage that is returned,
every cell that names a mother is one of the two daughters that mother lists; the two daughters a mother lists
are different cells that both name her; and every daughter was simulated from one of the two parts of a
partition of her mother's final cell state. -/
theorem lineage_consistent (fin : ρ → κ) (fate : κ → Fate) (split : κ → γ → (κ × κ) × γ)
    (sim : κ → κ → γ → (ρ × κ × Bool) × γ) (sim0 : κ → γ → (ρ × κ) × γ)
    (hfin : ∀ cs d c, (sim cs d c).1.2.1 = fin (sim cs d c).1.1) (hfin0 : ∀ v c, (sim0 v c).1.2 = fin (sim0 v c).1.1)
    (cells : List κ) (c c' : γ) (fuel : Nat) (f : Forest κ ρ)
    (hrun : forestRun fate split sim fuel (forestInit sim0 cells c).1 (forestInit sim0 cells c).2 = some (f, c')) :
    ForestInv fin split sim f :=
  forestRun_inv fin fate split sim hfin fuel _ f _ c' (forestInit_inv fin split sim sim0 hfin0 cells c) hrun

end Forest

/-! ### The concrete lineage simulator -/

section Concrete
variable {σ α : Type} [Field α] [LinearOrder α] [IsStrictOrderedRing α] [FloorRing α] [Transc α] [Trunc α]
  [C20.LawfulTrunc α]

theorem simOne_final (g : Gen σ α) (m : CellModel α) (times : List α) (fuel : Nat) (v : Cell α) (c : Thread σ α) :
    (simOne g m times fuel v c).1.2 = (simOne g m times fuel v c).1.1.finalCell := by
  unfold simOne
  split_ifs
  · simp [CellResult.finalCell]
  · rfl

/-- **`py_SimulateCellLineage` returns a consistent lineage**: `lineage_consistent` for the transcribed cell
simulator, splitters and final-cell-state function. -/
theorem simulateLineage_consistent (g : Gen σ α) (m : CellModel α) (eps8 eps12 : α)
    (ruleSplitters eventSplitters : List (Splitter α)) (times : List α) (cells : List (Cell α)) (p0 : List α)
    (fuel cellFuel : Nat) (gs : σ) (f : Forest (Cell α) (CellResult α)) (c : Thread σ α)
    (h : simulateLineage g m eps8 eps12 ruleSplitters eventSplitters times cells p0 fuel cellFuel gs = some (f, c)) :
    ForestInv CellResult.finalCell (splitCell g eps8 ruleSplitters eventSplitters)
      (simDaughter g m eps12 times cellFuel) f := by
  unfold simulateLineage at h
  exact lineage_consistent CellResult.finalCell _ _ _ (simOne g m times cellFuel)
    (fun cs d c => simOne_final g m _ cellFuel d c) (fun v c => simOne_final g m times cellFuel v c) cells _ c fuel f h

/-- **daughters are born at the mother's division time, from a partition of her state**: both cells made by
`interface.partition` carry the mother's time as their time and birth time, their share of the volume as
volume and birth volume, and their states satisfy `partitionLineage_spec` for the splitter of the rule or
event that fired. -/
theorem splitCell_birth (g : Gen σ α) (eps8 : α) (ruleSplitters eventSplitters : List (Splitter α)) (cs : Cell α)
    (c : Thread σ α) :
    let d := (splitCell g eps8 ruleSplitters eventSplitters cs c).1
    d.1.time = cs.time ∧ d.1.t0 = cs.time ∧ d.2.time = cs.time ∧ d.2.t0 = cs.time ∧
      d.1.v0 = d.1.vol ∧ d.2.v0 = d.2.vol ∧ d.1.divided = -1 ∧ d.1.dead = -1 ∧ d.2.divided = -1 ∧ d.2.dead = -1 ∧
      ∃ sp : Splitter α,
        d.1.state = (partitionLineage g sp.vs sp.noise eps8 sp.perfect sp.binomial cs.state cs.vol c.g).1.dState ∧
        d.2.state = (partitionLineage g sp.vs sp.noise eps8 sp.perfect sp.binomial cs.state cs.vol c.g).1.eState ∧
        d.1.vol = (partitionLineage g sp.vs sp.noise eps8 sp.perfect sp.binomial cs.state cs.vol c.g).1.dVol ∧
        d.2.vol = (partitionLineage g sp.vs sp.noise eps8 sp.perfect sp.binomial cs.state cs.vol c.g).1.eVol := by
  intro d
  exact ⟨rfl, rfl, rfl, rfl, rfl, rfl, rfl, rfl, rfl, rfl, _, rfl, rfl, rfl, rfl⟩

/-! #### A division uses the splitter of the rule or event that caused it -/

/-- the daughters `splitCell` makes with one given splitter. -/
def daughtersWith (g : Gen σ α) (eps8 : α) (sp : Splitter α) (cs : Cell α) (c : Thread σ α) : Daughters α :=
  (partitionLineage g sp.vs sp.noise eps8 sp.perfect sp.binomial cs.state cs.vol c.g).1

/-- a division flagged with the index of division rule `i` partitions with rule `i`'s splitter … -/
theorem splitCell_rule_splitter (g : Gen σ α) (eps8 : α) (ruleSplitters eventSplitters : List (Splitter α)) (cs : Cell α)
    (c : Thread σ α) (i : Nat) (hd : cs.divided = (i : Int)) (hi : i < ruleSplitters.length) :
    let d := (splitCell g eps8 ruleSplitters eventSplitters cs c).1
    let w := daughtersWith g eps8 (ruleSplitters.getD i ⟨.binomial, 0, [], []⟩) cs c
    d.1.state = w.dState ∧ d.2.state = w.eState ∧ d.1.vol = w.dVol ∧ d.2.vol = w.eVol := by
  intro d w
  simp only [d, w, splitCell, daughtersWith, hd, Int.toNat_natCast, hi, if_true]
  simp

/-- … and one flagged `number of division rules + e` partitions with the splitter of division event `e` (not with a rule's). -/
theorem splitCell_event_splitter (g : Gen σ α) (eps8 : α) (ruleSplitters eventSplitters : List (Splitter α)) (cs : Cell α)
    (c : Thread σ α) (e : Nat) (hd : cs.divided = ((ruleSplitters.length + e : Nat) : Int)) :
    let d := (splitCell g eps8 ruleSplitters eventSplitters cs c).1
    let w := daughtersWith g eps8 (eventSplitters.getD e ⟨.binomial, 0, [], []⟩) cs c
    d.1.state = w.dState ∧ d.2.state = w.eState ∧ d.1.vol = w.dVol ∧ d.2.vol = w.eVol := by
  intro d w
  have hn : ¬ (ruleSplitters.length + e < ruleSplitters.length) := by omega
  simp only [d, w, splitCell, daughtersWith, hd, Int.toNat_natCast, hn, if_false, Nat.add_sub_cancel_left]
  simp

/-- the single-cell loop flags a division caused by division event `e` (propensity index `reactions + volume events + e`) as
`number of division rules + e`: together with `splitCell_event_splitter`, the event's own splitter is used. -/
theorem cellEventStep_division_index (g : Gen σ α) (m : CellModel α) (a : List α) (Lambda : α) (b : CellLoop σ α)
    (c : Nat) (hc : (sampleDiscrete g a Lambda b.g).1 = (c : Int))
    (hlo : m.props.length + m.volEvents.length ≤ c) (hhi : c < m.props.length + m.volEvents.length + m.nDivEvents) :
    (cellEventStep g m a Lambda b).divided = ((m.divRules.length + (c - m.props.length - m.volEvents.length) : Nat) : Int)
      ∧ (cellEventStep g m a Lambda b).stop = true := by
  unfold cellEventStep
  have h1 : ¬ ((c : Int) < 0) := by omega
  have h2 : ¬ (c < m.props.length) := by omega
  have h3 : ¬ (c < m.props.length + m.volEvents.length) := by omega
  simp only [hc, h1, if_false, Int.toNat_natCast, h2, h3, hhi, if_true]
  constructor
  · congr 1; omega
  · trivial

end Concrete

/-! ### The pinned tree's final push, and non-vacuity -/

section Witness

/-- the final push as the pinned tree had it: only when the event fell before the next row's time. -/
def cellPushPinned {σ α : Type} [Zero α] [LT α] [DecidableLT α] (times : List α) (s : CellLoop σ α) : CellLoop σ α :=
  if s.t < times.getD s.idx 0 then { s with results := s.results.set s.idx (s.x, s.vol), idx := s.idx + 1 } else s

/-- the loop state of a cell that left the loop at its first rule check (division rule 0 held at birth). -/
def bornDividing : CellLoop Unit ℚ where
  x := [3]
  p := []
  vol := 2
  t := 0
  idx := 0
  nextQ := 1
  ruleStep := true
  results := [([0], 0), ([0], 0)]
  g := ()
  divided := 0
  dead := -1
  stop := true
  raised := false
  bad := false

/-- a cell whose division rule already holds when it is born at a grid time: the invariant holds, nothing has
been written, and the pinned push writes nothing either — the one row it reports (`current_index == 0`
keeps one row) is the zero the array was allocated with, volume `0` included.  `cellPush` writes it. -/
theorem pinned_reports_unwritten_row :
    ∃ (times : List ℚ) (s : CellLoop Unit ℚ), CellInv times.length s ∧ s.raised = false ∧ s.divided ≥ 0 ∧
      rowVol (cellPushPinned times s).results 0 = 0 ∧ 0 < rowVol (cellPush times s).results 0 := by
  refine ⟨[0, 1], bornDividing,
    ⟨rfl, fun _ => by simp [bornDividing], fun i hi => by simp [bornDividing] at hi, fun h => by simp [bornDividing] at h,
     fun _ => Or.inl (by simp [bornDividing])⟩, rfl, by simp [bornDividing], ?_, ?_⟩
  · simp [cellPushPinned, rowVol, bornDividing]
  · simp [cellPush, rowVol, bornDividing]

/-- the hypotheses of `partitionLineage_spec` and `partitionLineage_volume_pos` are met by an ordinary splitter
(species 0 and 2 perfect, species 1 binomial, noise 1/2) and an ordinary stream. -/
example : (([0, 2] : List Nat) ++ [1]).Nodup ∧ (0 : ℝ) ≤ 1 / 100000000 ∧ (0 : ℝ) < 3 / 2 ∧
    (0 : ℝ) ≤ 1 / 3 ∧ (0 : ℝ) ≤ 1 / 2 ∧ (1 / 3 : ℝ) * (1 / 2) < 1 := by
  refine ⟨by decide, by norm_num, by norm_num, by norm_num, by norm_num, by norm_num⟩

end Witness

end Bioscrape.C19
