import Mathlib.Algebra.Order.Floor.Ring
import Mathlib.Algebra.Order.Round
import Mathlib.Algebra.BigOperators.Group.List.Basic
import Mathlib.Data.List.GetD
import Mathlib.Tactic.Ring
import Mathlib.Tactic.Linarith
import Mathlib.Tactic.FieldSimp
import Mathlib.Algebra.Order.Archimedean.Real.Basic
import BioscrapeModel.Model.DelayQueue

/-
C20 — the delay queue delivers each entry once, in order, at the nearest grid time.

Theorems about `Model/DelayQueue.lean` (the executable transcription of
`ArrayDelayQueue`), over any linearly ordered floor field, for histories of any length.
-/
set_option linter.unusedSectionVars false
set_option linter.unusedSimpArgs false

namespace Bioscrape.C20
open Bioscrape

variable {α : Type} [Field α] [LinearOrder α] [IsStrictOrderedRing α] [FloorRing α] [Trunc α]

/-- the law of C's `(int) x` assumed of the number type: truncation toward zero. -/
class LawfulTrunc (α : Type) [Field α] [LinearOrder α] [IsStrictOrderedRing α] [FloorRing α] [Trunc α] : Prop where
  trunc_eq : ∀ x : α, Trunc.trunc x = if 0 ≤ x then ⌊x⌋ else ⌈x⌉

variable [LawfulTrunc α]

/-- requested time in units of slots after the next queue time. -/
def offset (q : DQ α) (t : α) : α := (t - q.next) / q.dt

/-- **slot of an insertion**: round-half-up of the offset, clamped to the queue:
the earliest pending slot if the time has already passed, the last slot beyond the horizon. -/
theorem slotOf_eq (q : DQ α) (t : α) (hn : 0 < q.numCols) :
    (q.slotOf t : Int) = max 0 (min ((q.numCols : Int) - 1) ⌊offset q t + 1 / 2⌋) := by
  unfold DQ.slotOf offset
  simp only [Nat.cast_ofNat]
  rw [LawfulTrunc.trunc_eq]
  set y : α := (t - q.next) / q.dt + 1 / 2 with hy
  by_cases h0 : 0 ≤ y
  · simp only [h0, if_true]
    have hf : 0 ≤ ⌊y⌋ := Int.floor_nonneg.mpr h0
    have : ¬ ⌊y⌋ < 0 := not_lt.mpr hf
    simp only [this, if_false]
    by_cases hb : ⌊y⌋ ≥ (q.numCols : Int)
    · simp only [hb, if_true]
      have : ((q.numCols - 1 : Nat) : Int) = (q.numCols : Int) - 1 := by omega
      rw [this]
      omega
    · simp only [hb, if_false]
      rw [Int.toNat_of_nonneg hf]
      omega
  · simp only [h0, if_false]
    have hy0 : y < 0 := not_le.mp h0
    have hc : ⌈y⌉ ≤ 0 := Int.ceil_le.mpr (by exact_mod_cast le_of_lt hy0)
    have hfl : ⌊y⌋ < 0 := Int.floor_lt.mpr (by exact_mod_cast hy0)
    by_cases hneg : ⌈y⌉ < 0
    · simp only [hneg, if_true]; omega
    · have : ⌈y⌉ = 0 := by omega
      simp only [this, lt_irrefl, if_false]
      have hge : ¬ ((0 : Int) ≥ (q.numCols : Int)) := by omega
      simp only [hge, if_false]
      simp; omega

/-- inside the queue's range the slot is a nearest grid point: within half a step of the request. -/
theorem slot_nearest (q : DQ α) (t : α) (hn : 0 < q.numCols)
    (hlo : 0 ≤ offset q t + 1 / 2) (hhi : offset q t + 1 / 2 < (q.numCols : α)) :
    |offset q t - (q.slotOf t : α)| ≤ 1 / 2 := by
  have h := slotOf_eq q t hn
  have hf0 : 0 ≤ ⌊offset q t + 1 / 2⌋ := Int.floor_nonneg.mpr hlo
  have hf1 : ⌊offset q t + 1 / 2⌋ < (q.numCols : Int) := Int.floor_lt.mpr (by exact_mod_cast hhi)
  have hs : (q.slotOf t : Int) = ⌊offset q t + 1 / 2⌋ := by rw [h]; omega
  have hs' : (q.slotOf t : α) = ((⌊offset q t + 1 / 2⌋ : Int) : α) := by
    have := congrArg (fun z : Int => (z : α)) hs
    simpa using this
  rw [hs', abs_le]
  have h1 := Int.floor_le (offset q t + 1 / 2)
  have h2 := Int.lt_floor_add_one (offset q t + 1 / 2)
  constructor <;> linarith

/-- a requested time that has already passed goes to the earliest pending slot. -/
theorem slot_past (q : DQ α) (t : α) (hn : 0 < q.numCols) (h : offset q t + 1 / 2 < 1) :
    q.slotOf t = 0 := by
  have hs := slotOf_eq q t hn
  have : ⌊offset q t + 1 / 2⌋ < 1 := Int.floor_lt.mpr (by exact_mod_cast h)
  omega

/-- a requested time beyond the horizon goes to the last slot. -/
theorem slot_beyond (q : DQ α) (t : α) (hn : 0 < q.numCols)
    (h : ((q.numCols : α) - 1) ≤ offset q t + 1 / 2) : q.slotOf t = q.numCols - 1 := by
  have hs := slotOf_eq q t hn
  have : (q.numCols : Int) - 1 ≤ ⌊offset q t + 1 / 2⌋ := Int.le_floor.mpr (by push_cast; exact h)
  omega

theorem slotOf_lt (q : DQ α) (t : α) (hn : 0 < q.numCols) : q.slotOf t < q.numCols := by
  have hs := slotOf_eq q t hn
  omega

/-! ### One-step behaviour in terms of pending amounts per logical slot -/

theorem ring_index (n s j k : Nat) (hs : s < n) (hj : j < n) (hk : k < n) :
    (s + j) % n = (k + s) % n ↔ j = k := by
  constructor
  · intro h
    have h1 : (s + j) % n = if s + j < n then s + j else s + j - n := by
      split
      · exact Nat.mod_eq_of_lt ‹_›
      · rw [Nat.mod_eq_sub_mod (by omega)]; exact Nat.mod_eq_of_lt (by omega)
    have h2 : (k + s) % n = if k + s < n then k + s else k + s - n := by
      split
      · exact Nat.mod_eq_of_lt ‹_›
      · rw [Nat.mod_eq_sub_mod (by omega)]; exact Nat.mod_eq_of_lt (by omega)
    rw [h1, h2] at h
    split at h <;> split at h <;> omega
  · intro h; subst h; rw [Nat.add_comm]

/-- an insertion adds its amount to exactly one (slot, reaction) cell. -/
theorem pending_add (q : DQ α) (t a : α) (r r' j : Nat) (hs : q.start < q.numCols) (hj : j < q.numCols) :
    (q.add t r a).pending j r' = q.pending j r' + if j = q.slotOf t ∧ r' = r then a else 0 := by
  have hn : 0 < q.numCols := by omega
  unfold DQ.add DQ.pending
  simp only
  have := ring_index q.numCols q.start j (q.slotOf t) hs hj (slotOf_lt q t hn)
  by_cases h : j = q.slotOf t ∧ r' = r
  · obtain ⟨h1, h2⟩ := h
    subst h1; subst h2
    have e' : (q.start + q.slotOf t) % q.numCols = (q.slotOf t + q.start) % q.numCols := by
      rw [Nat.add_comm]
    simp [e']
  · have : ¬ ((q.start + j) % q.numCols = (q.slotOf t + q.start) % q.numCols ∧ r' = r) := by
      intro ⟨e1, e2⟩; exact h ⟨this.mp e1, e2⟩
    simp [this, h]

/-- what a read returns is the earliest slot. -/
theorem nextReactions_eq (q : DQ α) (hs : q.start < q.numCols) :
    q.nextReactions = (List.range q.numRxn).map (q.pending 0) := by
  unfold DQ.nextReactions DQ.pending
  simp [Nat.mod_eq_of_lt hs]

/-- advancing shifts every later slot one step earlier, vacates the last slot, and moves the
queue time one grid step on. -/
theorem pending_advance (q : DQ α) (j r : Nat) (hs : q.start < q.numCols) (hj : j + 1 < q.numCols) :
    q.advance.pending j r = q.pending (j + 1) r := by
  unfold DQ.advance DQ.pending
  simp only
  have hn : 0 < q.numCols := by omega
  have e : ((q.start + 1) % q.numCols + j) % q.numCols = (q.start + (j + 1)) % q.numCols := by
    rw [Nat.add_comm ((q.start + 1) % q.numCols) j, Nat.add_mod, Nat.mod_mod, ← Nat.add_mod]
    congr 1; omega
  rw [e]
  have ne : (q.start + (j + 1)) % q.numCols ≠ q.start := by
    intro h
    have h0 : (q.start + 0) % q.numCols = (0 + q.start) % q.numCols := by simp
    have h1 : (q.start + (j+1)) % q.numCols = (0 + q.start) % q.numCols := by
      rw [h]; simp [Nat.mod_eq_of_lt hs]
    have := (ring_index q.numCols q.start (j+1) 0 hs hj hn).mp h1
    omega
  simp [ne]

theorem pending_advance_last (q : DQ α) (r : Nat) (hs : q.start < q.numCols) :
    q.advance.pending (q.numCols - 1) r = 0 := by
  unfold DQ.advance DQ.pending
  simp only
  have hn : 0 < q.numCols := by omega
  have e : ((q.start + 1) % q.numCols + (q.numCols - 1)) % q.numCols = q.start := by
    rw [Nat.add_comm, Nat.add_mod, Nat.mod_mod, ← Nat.add_mod]
    have : q.numCols - 1 + (q.start + 1) = q.start + q.numCols := by omega
    rw [this, Nat.add_mod_right, Nat.mod_eq_of_lt hs]
  simp [e]

theorem advance_start_lt (q : DQ α) (hn : 0 < q.numCols) : q.advance.start < q.advance.numCols := by
  unfold DQ.advance; simp only; exact Nat.mod_lt _ hn

/-! ### Histories: every insertion is delivered exactly once or still pending exactly once -/

inductive QOp (α : Type) where
  | add (t : α) (r : Nat) (a : α)
  | readAdvance

/-- a queue together with the ghost history the implementation does not keep. -/
structure Run (α : Type) where
  q : DQ α
  base : Nat                          -- number of read-and-advance steps so far
  assigned : List (Nat × Nat × α)     -- per insertion: absolute slot computed at insertion, reaction, amount
  delivered : List (List α)           -- what each read returned, in order

def step (s : Run α) : QOp α → Run α
  | .add t r a => { s with q := s.q.add t r a, assigned := s.assigned ++ [(s.base + s.q.slotOf t, r, a)] }
  | .readAdvance => { s with q := s.q.advance, base := s.base + 1,
                             delivered := s.delivered ++ [s.q.nextReactions] }

def run (init : DQ α) (ops : List (QOp α)) : Run α :=
  ops.foldl step { q := init, base := 0, assigned := [], delivered := [] }

/-- total amount of reaction `r` whose insertion was assigned the absolute slot `n`. -/
def added (log : List (Nat × Nat × α)) (n r : Nat) : α :=
  (log.map (fun e => if e.1 = n ∧ e.2.1 = r then e.2.2 else 0)).sum

theorem added_append (log : List (Nat × Nat × α)) (e : Nat × Nat × α) (n r : Nat) :
    added (log ++ [e]) n r = added log n r + if e.1 = n ∧ e.2.1 = r then e.2.2 else 0 := by
  simp [added]

structure Inv (init : DQ α) (s : Run α) : Prop where
  cols : s.q.numCols = init.numCols
  rxns : s.q.numRxn = init.numRxn
  dt : s.q.dt = init.dt
  start : s.q.start < s.q.numCols
  next : s.q.next = init.next + (s.base : α) * init.dt
  pend : ∀ j r, j < s.q.numCols → s.q.pending j r = added s.assigned (s.base + j) r
  far : ∀ n r, s.base + s.q.numCols ≤ n → added s.assigned n r = 0
  len : s.delivered.length = s.base
  deliv : ∀ n r, n < s.base → r < s.q.numRxn → (s.delivered.getD n []).getD r 0 = added s.assigned n r

theorem inv_step (init : DQ α) (s : Run α) (op : QOp α) (h : Inv init s) : Inv init (step s op) := by
  have hn : 0 < s.q.numCols := by have := h.start; omega
  cases op with
  | add t r a =>
    have hsl := slotOf_lt s.q t hn
    refine ⟨h.cols, h.rxns, h.dt, h.start, h.next, ?_, ?_, h.len, ?_⟩
    · intro j r' hj
      show (s.q.add t r a).pending j r' = added (s.assigned ++ [_]) (s.base + j) r'
      rw [pending_add s.q t a r r' j h.start hj, added_append, h.pend j r' hj]
      congr 1
      by_cases hc : j = s.q.slotOf t ∧ r' = r
      · obtain ⟨h1, h2⟩ := hc; simp [h1, h2]
      · have : ¬ (s.base + s.q.slotOf t = s.base + j ∧ r = r') := by
          intro ⟨e1, e2⟩; exact hc ⟨by omega, e2.symm⟩
        simp [hc]
        intro e1 e2
        exact absurd ⟨e1.symm, e2.symm⟩ hc
    · intro n r' hfar
      show added (s.assigned ++ [_]) n r' = 0
      rw [added_append, h.far n r' hfar]
      have : ¬ (s.base + s.q.slotOf t = n ∧ r = r') := by
        intro ⟨e1, _⟩
        have : s.base + s.q.numCols ≤ n := hfar
        omega
      simp [this]
    · intro n r' hnb hr
      show (s.delivered.getD n []).getD r' 0 = added (s.assigned ++ [_]) n r'
      have hnb' : n < s.base := hnb
      rw [added_append, h.deliv n r' hnb' hr]
      have : ¬ (s.base + s.q.slotOf t = n ∧ r = r') := by
        intro ⟨e1, _⟩; omega
      simp [this]
  | readAdvance =>
    have hcols : s.q.advance.numCols = s.q.numCols := rfl
    refine ⟨h.cols, h.rxns, h.dt, advance_start_lt s.q hn, ?_, ?_, ?_, ?_, ?_⟩
    · show s.q.next + s.q.dt = init.next + ((s.base + 1 : Nat) : α) * init.dt
      rw [h.next, h.dt]; push_cast; ring
    · intro j r hj
      show s.q.advance.pending j r = added s.assigned (s.base + 1 + j) r
      by_cases hlast : j + 1 < s.q.numCols
      · rw [pending_advance s.q j r h.start hlast, h.pend (j+1) r hlast]
        congr 1; omega
      · have hj' : j < s.q.numCols := hj
        have : j = s.q.numCols - 1 := by omega
        rw [this, pending_advance_last s.q r h.start, h.far _ r (by omega)]
    · intro n r hfar
      exact h.far n r (by have : s.base + 1 + s.q.numCols ≤ n := hfar; omega)
    · show (s.delivered ++ [s.q.nextReactions]).length = s.base + 1
      simp [h.len]
    · intro n r hnb hr
      show ((s.delivered ++ [s.q.nextReactions]).getD n []).getD r 0 = added s.assigned n r
      have hnb' : n < s.base + 1 := hnb
      by_cases hlt : n < s.base
      · rw [List.getD_append _ _ _ _ (by rw [h.len]; exact hlt)]
        exact h.deliv n r hlt hr
      · have hn' : n = s.base := by omega
        subst hn'
        rw [List.getD_append_right _ _ _ _ (by rw [h.len])]
        simp only [h.len, Nat.sub_self, List.getD_cons_zero]
        rw [nextReactions_eq s.q h.start]
        have hr' : r < s.q.numRxn := hr
        simp [List.getD_eq_getElem?_getD, hr']
        have := h.pend 0 r hn
        simpa using this

theorem inv_init (init : DQ α) (h0 : init.start < init.numCols) (hempty : ∀ c r, init.cells c r = 0) :
    Inv init { q := init, base := 0, assigned := [], delivered := [] } := by
  refine ⟨rfl, rfl, rfl, h0, by simp, ?_, ?_, rfl, ?_⟩
  · intro j r _; simp [DQ.pending, hempty, added]
  · intro n r _; simp [added]
  · intro n r hn; exact absurd hn (Nat.not_lt_zero n)

theorem inv_run (init : DQ α) (ops : List (QOp α)) (h0 : init.start < init.numCols)
    (hempty : ∀ c r, init.cells c r = 0) : Inv init (run init ops) := by
  unfold run
  generalize hs : ({ q := init, base := 0, assigned := [], delivered := [] } : Run α) = s0
  have h : Inv init s0 := hs ▸ inv_init init h0 hempty
  clear hs
  induction ops generalizing s0 with
  | nil => exact h
  | cons op rest ih => exact ih (step s0 op) (inv_step init s0 op h)

/-- **exactly once**: after any history of insertions and read-and-advance steps on an initially
empty queue, for every reaction `r` and absolute slot `n` the total amount inserted for `(n, r)` —
each insertion counted at the one slot computed when it was made — has been delivered by the
`n`-th read and by no other (`n < base`), or is pending in exactly the cell of slot `n`
(`base ≤ n < base + numCols`), and nothing was inserted beyond the horizon.
Reads happen at `next₀, next₀ + dt, …` in increasing order. -/
theorem queue_exactly_once (init : DQ α) (ops : List (QOp α)) (h0 : init.start < init.numCols)
    (hempty : ∀ c r, init.cells c r = 0) :
    let s := run init ops
    (∀ n r, n < s.base → r < init.numRxn → (s.delivered.getD n []).getD r 0 = added s.assigned n r)
    ∧ (∀ j r, j < init.numCols → s.q.pending j r = added s.assigned (s.base + j) r)
    ∧ (∀ n r, s.base + init.numCols ≤ n → added s.assigned n r = 0)
    ∧ s.delivered.length = s.base
    ∧ s.q.next = init.next + (s.base : α) * init.dt := by
  intro s
  have h := inv_run init ops h0 hempty
  refine ⟨?_, ?_, ?_, h.len, h.next⟩
  · intro n r hn hr; exact h.deliv n r hn (h.rxns ▸ hr)
  · intro j r hj; exact h.pend j r (h.cols ▸ hj)
  · intro n r hn; exact h.far n r (by rw [h.cols]; exact hn)

/-! ### Totals: an insertion is never lost, a read-and-advance removes exactly what it returns -/

/-- total amount of reaction `r` waiting in the queue (all logical slots). -/
def totalPending (q : DQ α) (r : Nat) : α := ((List.range q.numCols).map (fun j => q.pending j r)).sum

private theorem sum_indicator (n k : Nat) (a : α) (hk : k < n) :
    ((List.range n).map (fun j => if j = k then a else 0)).sum = a := by
  induction n with
  | zero => omega
  | succ n ih =>
    rw [List.range_succ, List.map_append, List.sum_append]
    by_cases h : k = n
    · subst h
      have : ((List.range k).map (fun j => if j = k then a else (0 : α))) = (List.range k).map (fun _ => (0 : α)) := by
        apply List.map_congr_left
        intro j hj
        have : j ≠ k := by have := List.mem_range.mp hj; omega
        simp [this]
      rw [this]; simp
    · have hk' : k < n := by omega
      rw [ih hk']
      have : n ≠ k := fun e => h e.symm
      simp [this]

private theorem sum_map_add (l : List Nat) (f g : Nat → α) :
    (l.map (fun j => f j + g j)).sum = (l.map f).sum + (l.map g).sum := by
  induction l with
  | nil => simp
  | cons x l ih => simp only [List.map_cons, List.sum_cons, ih]; ring

/-- **no insertion is lost**: whatever the requested time — in the past, beyond the end of the queue (both clamped), or
in range — an insertion raises the total waiting amount of its reaction by exactly its amount and leaves every other
reaction's total alone. -/
theorem totalPending_add (q : DQ α) (t a : α) (r r' : Nat) (hs : q.start < q.numCols) :
    totalPending (q.add t r a) r' = totalPending q r' + if r' = r then a else 0 := by
  have hn : 0 < q.numCols := by omega
  unfold totalPending
  have hnc : (q.add t r a).numCols = q.numCols := rfl
  rw [hnc]
  have h1 : (List.range q.numCols).map (fun j => (q.add t r a).pending j r')
      = (List.range q.numCols).map (fun j => q.pending j r' + (if j = q.slotOf t then (if r' = r then a else 0) else 0)) := by
    apply List.map_congr_left
    intro j hj
    rw [pending_add q t a r r' j hs (List.mem_range.mp hj)]
    by_cases h1 : j = q.slotOf t <;> by_cases h2 : r' = r <;> simp [h1, h2]
  rw [h1, sum_map_add, sum_indicator q.numCols (q.slotOf t) _ (slotOf_lt q t hn)]

/-- **a read-and-advance removes exactly what it returns**: the total waiting amount of a reaction after the step is the
total before minus the amount in the earliest slot (the amount the read delivered). -/
theorem totalPending_advance (q : DQ α) (r : Nat) (hs : q.start < q.numCols) :
    totalPending q.advance r + q.pending 0 r = totalPending q r := by
  have hn : 0 < q.numCols := by omega
  unfold totalPending
  have hnc : q.advance.numCols = q.numCols := rfl
  rw [hnc]
  obtain ⟨n, hn'⟩ : ∃ n, q.numCols = n + 1 := ⟨q.numCols - 1, by omega⟩
  rw [hn']
  have hA : (List.range (n + 1)).map (fun j => q.advance.pending j r)
      = (List.range n).map (fun j => q.pending (j + 1) r) ++ [0] := by
    rw [List.range_succ, List.map_append]
    congr 1
    · apply List.map_congr_left
      intro j hj
      exact pending_advance q j r hs (by have := List.mem_range.mp hj; omega)
    · have := pending_advance_last q r hs
      rw [hn'] at this
      simpa using this
  rw [hA, List.range_succ_eq_map, List.map_cons, List.sum_cons, List.map_map, List.sum_append]
  simp only [List.sum_cons, List.sum_nil, Function.comp_def, Nat.succ_eq_add_one]
  ring

/-! ### Copy and binomial partition -/

/-- **re-basing the clock keeps the queue's contents in place**: `set_current_time` (which every delay simulation calls
on the queue it is handed, so also on a queue carried over from an earlier run) changes the time base only — every
pending entry stays in the logical slot it was in, and the earliest slot is still the one delivered next. -/
theorem setCurrentTime_keeps_contents (q : DQ α) (t : α) (j r : Nat) :
    (q.setCurrentTime t).pending j r = q.pending j r ∧ (q.setCurrentTime t).start = q.start
      ∧ (q.setCurrentTime t).nextReactions = q.nextReactions ∧ (q.setCurrentTime t).next = t + q.dt :=
  ⟨rfl, rfl, rfl, rfl⟩

/-- … and a re-base to the time the queue is already at is the identity. -/
theorem setCurrentTime_same (q : DQ α) : q.setCurrentTime (q.next - q.dt) = q := by
  unfold DQ.setCurrentTime
  have : q.next - q.dt + q.dt = q.next := by ring
  rw [this]

theorem copy_preserves (q : DQ α) : q.copy = q := rfl

/-- whatever the random stream, the two parts of a binomial partition add up, cell by cell, to the
original queue, which is itself unchanged (it is not an output of the operation). -/
theorem partition_splits {σ : Type} (g : Gen σ α) (q : DQ α) (p : α) (s : σ) (j r : Nat)
    (hs : q.start < q.numCols) (hr : r < q.numRxn) :
    (q.partition g p s).1.1.pending j r + (q.partition g p s).1.2.pending j r = q.pending j r := by
  have hn : 0 < q.numCols := by omega
  unfold DQ.partition DQ.pending
  simp only
  have hc : (q.start + j) % q.numCols < q.numCols := Nat.mod_lt _ hn
  simp [hc, hr]

/-! ### Non-vacuity: a 3-slot queue with wrap-around -/

noncomputable instance : Trunc ℝ := ⟨fun x => if 0 ≤ x then ⌊x⌋ else ⌈x⌉⟩
instance : LawfulTrunc ℝ := ⟨fun _ => rfl⟩

/-- the hypotheses of `queue_exactly_once` are met by every queue made by `setup_queue`
(here 2 reactions, 3 slots, `dt = 1/2`), for which the theorem therefore holds for all histories
(wrap-around of the ring included: histories are unbounded). -/
example (ops : List (QOp ℝ)) :
    let init : DQ ℝ := DQ.setup 2 3 (1 / 2)
    init.start < init.numCols ∧ (∀ c r, init.cells c r = 0) ∧
      (run init ops).delivered.length = (run init ops).base := by
  intro init
  have h0 : init.start < init.numCols := by simp [init, DQ.setup, DQ.new]
  have he : ∀ c r, init.cells c r = 0 := by simp [init, DQ.setup, DQ.new]
  exact ⟨h0, he, (queue_exactly_once init ops h0 he).2.2.2.1⟩

/-- non-vacuity of `totalPending_add`: on a fresh 3-slot queue an insertion far beyond the horizon (clamped to the last
slot) is still counted in full, and only for its own reaction. -/
example : totalPending ((DQ.setup 2 3 (1 / 2) : DQ ℝ).add 1000 1 5) 1 = 5
    ∧ totalPending ((DQ.setup 2 3 (1 / 2) : DQ ℝ).add 1000 1 5) 0 = 0 := by
  have h0 : (DQ.setup 2 3 (1 / 2) : DQ ℝ).start < (DQ.setup 2 3 (1 / 2) : DQ ℝ).numCols := by
    simp [DQ.setup, DQ.new]
  have hz : ∀ r, totalPending (DQ.setup 2 3 (1 / 2) : DQ ℝ) r = 0 := by
    intro r; simp [totalPending, DQ.pending, DQ.setup, DQ.new]
  constructor
  · rw [totalPending_add _ _ _ _ _ h0, hz]; simp
  · rw [totalPending_add _ _ _ _ _ h0, hz]; simp

end Bioscrape.C20
