import Lean.Data.Json
import BioscrapeModel.Model.Num
import BioscrapeModel.Model.Term
import BioscrapeModel.Model.Propensity
import BioscrapeModel.Model.Network
import BioscrapeModel.Model.Random
import BioscrapeModel.Model.DelayQueue
import BioscrapeModel.Model.Rules
import BioscrapeModel.Model.Loops

/-
Line protocol codec (DESIGN §1.2).  A `Float` travels as the natural number of
its IEEE-754 bit pattern, a `Rat` as the string "num/den": nothing is rounded on
the wire.
-/
open Lean Bioscrape

namespace Driver

class Codec (α : Type) where
  dec : Json → Except String α
  enc : α → Json

instance : Codec Float where
  dec j := do
    let n ← j.getNat?
    return Float.ofBits n.toUInt64
  enc x := Json.num (JsonNumber.fromNat x.toBits.toNat)

def parseRat (s : String) : Except String Rat := do
  match s.splitOn "/" with
  | [n] => match n.toInt? with
    | some i => return (i : Rat)
    | none => throw s!"bad rat {s}"
  | [n, d] => match n.toInt?, d.toNat? with
    | some i, some k => if k = 0 then throw "zero den" else return (mkRat i k)
    | _, _ => throw s!"bad rat {s}"
  | _ => throw s!"bad rat {s}"

instance : Codec Rat where
  dec j := do
    let s ← j.getStr?
    parseRat s
  enc x := Json.str s!"{x.num}/{x.den}"

def getArr (j : Json) (k : String) : Except String (Array Json) := do
  (← j.getObjVal? k).getArr?

def getNatField (j : Json) (k : String) : Except String Nat := do
  (← j.getObjVal? k).getNat?

def getStrField (j : Json) (k : String) : Except String String := do
  (← j.getObjVal? k).getStr?

def getNatList (j : Json) (k : String) : Except String (List Nat) := do
  let a ← getArr j k
  a.toList.mapM (·.getNat?)

def getIntList (j : Json) (k : String) : Except String (List Int) := do
  let a ← getArr j k
  a.toList.mapM (·.getInt?)

def getNum {α} [Codec α] (j : Json) (k : String) : Except String α := do
  Codec.dec (← j.getObjVal? k)

def getNumList {α} [Codec α] (j : Json) (k : String) : Except String (List α) := do
  let a ← getArr j k
  a.toList.mapM Codec.dec

def encList {α} [Codec α] (xs : List α) : Json := Json.arr (xs.map Codec.enc).toArray

/-- state / parameter vectors as total functions; an out-of-range index is a
harness bug and reads as `0`. -/
def vecFn {α} [Zero α] (xs : List α) : Nat → α :=
  let a := xs.toArray
  fun i => a.getD i 0

partial def decTerm {α} [Codec α] (j : Json) : Except String (Term α) := do
  let a ← j.getArr?
  let tag ← (a.getD 0 Json.null).getStr?
  let arg (i : Nat) : Json := a.getD i Json.null
  let lst (i : Nat) : Except String (List (Term α)) := do
    let l ← (arg i).getArr?
    l.toList.mapM decTerm
  match tag with
  | "c" => return .const (← Codec.dec (arg 1))
  | "s" => return .species (← (arg 1).getNat?)
  | "p" => return .param (← (arg 1).getNat?)
  | "vol" => return .volume
  | "t" => return .time
  | "sum" => return .sum (← lst 1)
  | "prod" => return .prod (← lst 1)
  | "max" => return .max (← lst 1)
  | "min" => return .min (← lst 1)
  | "pow" => return .pow (← decTerm (arg 1)) (← decTerm (arg 2))
  | "exp" => return .exp (← decTerm (arg 1))
  | "log" => return .log (← decTerm (arg 1))
  | "step" => return .step (← decTerm (arg 1))
  | "abs" => return .abs (← decTerm (arg 1))
  | t => throw s!"bad term tag {t}"

def decProp {α} [Codec α] (j : Json) : Except String (Propensity α) := do
  let ty ← getStrField j "type"
  let n := getNatField j
  match ty with
  | "massaction" => return createMassAction (← n "k") (← getNatList j "reactants")
  | "massaction_raw" =>
      return .massAction (← n "k") ((← getNatList j "inds").zip (← getNatList j "counts")) (← n "n")
  | "hillpositive" => return .hillPos (← n "k") (← n "K") (← n "n") (← n "s1")
  | "proportionalhillpositive" =>
      return .propHillPos (← n "k") (← n "K") (← n "n") (← n "s1") (← n "d")
  | "hillnegative" => return .hillNeg (← n "k") (← n "K") (← n "n") (← n "s1")
  | "proportionalhillnegative" =>
      return .propHillNeg (← n "k") (← n "K") (← n "n") (← n "s1") (← n "d")
  | "general" => return .general (← decTerm (← j.getObjVal? "term"))
  | t => throw s!"bad propensity type {t}"

def getStrList (j : Json) (k : String) : Except String (List String) := do
  let a ← getArr j k
  a.toList.mapM (·.getStr?)

def getStrListD (j : Json) (k : String) : List String :=
  (getStrList j k).toOption.getD []

/-- name -> index through an association object `{"name": idx}` sent by the harness
(parameter indices are taken from the real model; species indices are computed by
the model itself). -/
def lookupIdx (m : Json) (name : String) : Except String Nat := do
  (← m.getObjVal? name).getNat?

def speciesIdx (sidx : List String) (name : String) : Except String Nat :=
  match sidx.idxOf? name with
  | some i => pure i
  | none => throw s!"unknown species {name}"

/-- a term whose leaves are names. -/
partial def decTermNamed {α} [Codec α] (sidx : List String) (pmap : Json) (j : Json) :
    Except String (Term α) := do
  let a ← j.getArr?
  let tag ← (a.getD 0 Json.null).getStr?
  let arg (i : Nat) : Json := a.getD i Json.null
  let rec' := decTermNamed (α := α) sidx pmap
  let lst (i : Nat) : Except String (List (Term α)) := do
    let l ← (arg i).getArr?
    l.toList.mapM rec'
  match tag with
  | "c" => return .const (← Codec.dec (arg 1))
  | "s" => return .species (← speciesIdx sidx (← (arg 1).getStr?))
  | "p" => return .param (← lookupIdx pmap (← (arg 1).getStr?))
  | "vol" => return .volume
  | "t" => return .time
  | "sum" => return .sum (← lst 1)
  | "prod" => return .prod (← lst 1)
  | "max" => return .max (← lst 1)
  | "min" => return .min (← lst 1)
  | "pow" => return .pow (← rec' (arg 1)) (← rec' (arg 2))
  | "exp" => return .exp (← rec' (arg 1))
  | "log" => return .log (← rec' (arg 1))
  | "step" => return .step (← rec' (arg 1))
  | "abs" => return .abs (← rec' (arg 1))
  | t => throw s!"bad term tag {t}"

/-- a propensity written with names: species through the model's own index,
parameters through the map supplied by the harness. -/
def decPropNamed {α} [Codec α] (sidx : List String) (pmap : Json) (reactants : List String)
    (j : Json) : Except String (Propensity α) := do
  let ty ← getStrField j "type"
  let pn (k : String) : Except String Nat := do lookupIdx pmap (← getStrField j k)
  let sn (k : String) : Except String Nat := do speciesIdx sidx (← getStrField j k)
  match ty with
  | "massaction" =>
      let rs ← (reactants.filter (· ≠ "")).mapM (speciesIdx sidx)
      return createMassAction (← pn "k") rs
  | "hillpositive" => return .hillPos (← pn "k") (← pn "K") (← pn "n") (← sn "s1")
  | "proportionalhillpositive" =>
      return .propHillPos (← pn "k") (← pn "K") (← pn "n") (← sn "s1") (← sn "d")
  | "hillnegative" => return .hillNeg (← pn "k") (← pn "K") (← pn "n") (← sn "s1")
  | "proportionalhillnegative" =>
      return .propHillNeg (← pn "k") (← pn "K") (← pn "n") (← sn "s1") (← sn "d")
  | "general" => return .general (← decTermNamed sidx pmap (← j.getObjVal? "term"))
  | t => throw s!"bad propensity type {t}"

def decRxnDef (j : Json) : Except String RxnDef := do
  return { reactants := ← getStrList j "reactants", products := ← getStrList j "products",
           dReactants := getStrListD j "dreactants", dProducts := getStrListD j "dproducts" }

def encIntCols (cols : List (List Int)) : Json :=
  Json.arr (cols.map (fun c => Json.arr (c.map (fun (v : Int) => Json.num (JsonNumber.fromInt v))).toArray)).toArray

def getBoolD (j : Json) (k : String) (d : Bool) : Bool :=
  match j.getObjVal? k with
  | .ok v => (v.getBool?).toOption.getD d
  | .error _ => d

def decIntCols (j : Json) (k : String) : Except String (List (List Int)) := do
  let a ← getArr j k
  a.toList.mapM (fun c => do
    let l ← c.getArr?
    l.toList.mapM (·.getInt?))

def decRule {α} [Codec α] (j : Json) : Except String (Rule α) := do
  let freq : α ← getNum j "freq"
  let op ← getStrField j "op"
  match op with
  | "additive" => return { freq, op := .additive (← getNatField j "dest") (← getNatList j "srcs") }
  | "assign" => return { freq, op := .assign (getBoolD j "toParam" false) (← getNatField j "dest")
                                      (← decTerm (← j.getObjVal? "term")) }
  | "ode" => return { freq, op := .ode (getBoolD j "toParam" false) (← getNatField j "dest")
                                   (← decTerm (← j.getObjVal? "term")) }
  | t => throw s!"bad rule op {t}"

def decDelay {α} (j : Json) : Except String (DelayKind α) := do
  let a ← j.getArr?
  let tag ← (a.getD 0 Json.null).getStr?
  let n (i : Nat) := (a.getD i Json.null).getNat?
  match tag with
  | "none" => return .none
  | "fixed" => return .fixed (← n 1)
  | "gaussian" => return .gaussian (← n 1) (← n 2)
  | "gamma" => return .gamma (← n 1) (← n 2)
  | t => throw s!"bad delay {t}"

def decVolModel {α} [Codec α] (j : Json) : Except String (VolModel α) := do
  let ty ← getStrField j "type"
  match ty with
  | "const" => return .const
  | "timeThreshold" => return .timeThreshold (← getNum j "growthRate") (← getNum j "divisionTime")
  | "stateDep" => return .stateDep (← decTerm (← j.getObjVal? "growth")) (← getNum j "divisionVolume")
  | t => throw s!"bad volume model {t}"

/-- the uniform source of a driver job: the concrete twister for `Float`; `Rat` jobs carry an
explicit list of uniforms (exact), consumed in order. -/
class Uniform (α : Type) where
  σ : Type
  init : Json → Except String σ
  gen : Gen σ α

instance : Uniform Float where
  σ := MT
  init j := do
    let seed := (getNatField j "seed").toOption.getD 1
    return MT.seed seed.toUInt64
  gen := MT.uniform

instance : Uniform Rat where
  σ := List Rat
  init j := do
    match j.getObjVal? "uniforms" with
    | .ok _ => getNumList (α := Rat) j "uniforms"
    | .error _ => return []
  gen := fun l => match l with
    | [] => (1, [])
    | u :: rest => (u, rest)

end Driver
