import Driver.Codec
import BioscrapeModel.Model.EntryPoint
import BioscrapeModel.Model.ModelState
import BioscrapeModel.Model.Priors
import BioscrapeModel.Model.Inference
import BioscrapeModel.Model.Sensitivity
import BioscrapeModel.Model.Deterministic
import BioscrapeModel.Model.Expr
import BioscrapeModel.Model.Sbml
import BioscrapeModel.Model.Lineage
import BioscrapeModel.Model.PowText

/-
`modeldriver`: one JSON job per input line, one JSON answer per output line
(DESIGN §1.2).  Every job names the number type it is to be run in
(`"num": "float" | "rat"`).
-/
open Lean Bioscrape Driver

section
variable {α : Type} [Codec α] [Zero α] [One α] [Add α] [Sub α] [Mul α] [Div α] [NatCast α] [IntCast α]
  [LT α] [LE α] [DecidableLT α] [DecidableLE α] [Transc α] [Trunc α] [Neg α] [Uniform α] [Inhabited α]

def jobProp (j : Json) : Except String Json := do
  let q : Propensity α ← decProp (← j.getObjVal? "prop")
  let x := vecFn (← getNumList (α := α) j "x")
  let p := vecFn (← getNumList (α := α) j "p")
  let V : α ← getNum j "V"
  let t : α ← getNum j "t"
  return Json.mkObj [
    ("det", Codec.enc (q.det x p t)), ("vol", Codec.enc (q.vol x p V t)),
    ("stoch", Codec.enc (q.stoch x p t)), ("svol", Codec.enc (q.svol x p V t))]

def jobTerm (j : Json) : Except String Json := do
  let e : Term α ← decTerm (← j.getObjVal? "term")
  let x := vecFn (← getNumList (α := α) j "x")
  let p := vecFn (← getNumList (α := α) j "p")
  let V : α ← getNum j "V"
  let t : α ← getNum j "t"
  return Json.mkObj [("eval", Codec.enc (e.eval x p t)), ("voleval", Codec.enc (e.volEval x p V t))]

/-- A whole model: species indexing, stoichiometry, propensities of the plain and
the safe interface in the four modes, and the deterministic derivative. -/
def jobNetwork (j : Json) : Except String Json := do
  let decl ← getStrList j "species"
  let ic := getStrListD j "ic"
  let rj ← getArr j "reactions"
  let rdefs ← rj.toList.mapM decRxnDef
  let sidx := speciesOrder decl rdefs ic
  let pmap ← j.getObjVal? "pindex"
  let props : List (Propensity α) ← (rj.toList.zip rdefs).mapM (fun (jr, rd) => do
    decPropNamed sidx pmap rd.reactants (← jr.getObjVal? "prop"))
  let U := stoichCols sidx rdefs
  let D := delayStoichCols sidx rdefs
  let base : List (String × Json) := [
    ("species", Json.arr (sidx.map Json.str).toArray),
    ("U", encIntCols U), ("D", encIntCols D)]
  -- evaluation points (optional)
  let pts := (getArr j "points").toOption.getD #[]
  let p := vecFn (← getNumList (α := α) j "p")
  let outs ← pts.toList.mapM (fun pt => do
    let xj ← pt.getObjVal? "x"
    let xs : List α ← sidx.mapM (fun s => do Codec.dec (← xj.getObjVal? s))
    let x := vecFn xs
    let V : α ← getNum pt "V"
    let t : α ← getNum pt "t"
    let n := sidx.length
    let plain (m : Mode) := encList (computePropensities m props x p V t)
    let safe (m : Mode) := encList (computePropensitiesSafe m n U D (reactantCols sidx rdefs) props x p V t)
    return Json.mkObj [
      ("det", plain .det), ("vol", plain .vol), ("stoch", plain .stoch), ("svol", plain .svol),
      ("sdet", safe .det), ("svolume", safe .vol), ("sstoch", safe .stoch), ("ssvol", safe .svol),
      ("deriv", encList (derivative n U D props x p t)),
      ("sderiv", match derivativeSafe n U D (reactantCols sidx rdefs) props x p t with
        | some rows => encList rows
        | none => Json.null)])
  return Json.mkObj (base ++ [("points", Json.arr outs.toArray)])

def dumpQueue (q : DQ α) : Json :=
  Json.mkObj [("next", Codec.enc q.next),
    ("pending", Json.arr ((List.range q.numCols).map (fun j =>
      encList ((List.range q.numRxn).map (fun r => q.pending j r)))).toArray)]

/-- an operation sequence over a pool of `ArrayDelayQueue` objects. -/
def jobDQ (j : Json) : Except String Json := do
  let numRxn ← getNatField j "numRxn"
  let numCols ← getNatField j "numCols"
  let dt : α ← getNum j "dt"
  let t0 : α ← getNum j "t0"
  let ops ← getArr j "ops"
  let s0 ← Uniform.init (α := α) j
  let mut qs : Array (DQ α) := #[DQ.new numRxn numCols dt t0]
  let mut s := s0
  let mut outs : Array Json := #[]
  for opj in ops do
    let a ← opj.getArr?
    let tag ← (a.getD 0 Json.null).getStr?
    let qi ← (a.getD 1 Json.null).getNat?
    let q := qs.getD qi (DQ.new numRxn numCols dt t0)
    match tag with
    | "add" =>
      let t : α ← Codec.dec (a.getD 2 Json.null)
      let r ← (a.getD 3 Json.null).getNat?
      let amt : α ← Codec.dec (a.getD 4 Json.null)
      qs := qs.setIfInBounds qi (q.add t r amt)
      outs := outs.push (Json.str "ok")
    | "read" =>
      outs := outs.push (Json.mkObj [("next", Codec.enc q.next), ("rx", encList q.nextReactions)])
    | "advance" =>
      qs := qs.setIfInBounds qi q.advance
      outs := outs.push (Json.str "ok")
    | "set" =>
      let t : α ← Codec.dec (a.getD 2 Json.null)
      qs := qs.setIfInBounds qi (q.setCurrentTime t)
      outs := outs.push (Json.str "ok")
    | "copy" =>
      qs := qs.push q.copy
      outs := outs.push (Json.str "ok")
    | "partition" =>
      let p : α ← Codec.dec (a.getD 2 Json.null)
      let ((q1, q2), s') := q.partition (Uniform.gen (α := α)) p s
      s := s'
      qs := (qs.push q1).push q2
      outs := outs.push (Json.str "ok")
    | "dump" => outs := outs.push (dumpQueue q)
    | t => throw s!"bad queue op {t}"
  return Json.mkObj [("outs", Json.arr outs), ("final", Json.arr (qs.map dumpQueue))]

def decSimModel (j : Json) : Except String (SimModel α) := do
  let props ← (← getArr j "props").toList.mapM (decProp (α := α))
  let rules ← ((getArr j "rules").toOption.getD #[]).toList.mapM (decRule (α := α))
  let delays ← ((getArr j "delays").toOption.getD #[]).toList.mapM (decDelay (α := α))
  let R : List (List Nat) := match decIntCols j "R" with
    | .ok cols => cols.map (·.map Int.toNat)
    | .error _ => []
  return { nSpecies := ← getNatField j "nSpecies", props, U := ← decIntCols j "U", D := ← decIntCols j "D", R,
           rules, delays, safe := getBoolD j "safe" false, dt := ← getNum j "dt", t0 := ← getNum j "t0",
           twoPi := ← getNum j "twoPi" }

def encEvent : Event α → Json
  | .fire k t d q => Json.arr #[Json.str "fire", Json.num (JsonNumber.fromNat k), Codec.enc t, Codec.enc d, Json.bool q]
  | .deliver t a => Json.arr #[Json.str "deliver", Codec.enc t, encList a]
  | .tick t => Json.arr #[Json.str "tick", Codec.enc t]
  | .rules t b => Json.arr #[Json.str "rules", Codec.enc t, Json.bool b]
  | .wait u => Json.arr #[Json.str "wait", Codec.enc u]
  | .choose u => Json.arr #[Json.str "choose", Codec.enc u]

/-- run one of the four simulators from an explicit description of the interface. -/
def jobSim (j : Json) : Except String Json := do
  let m ← decSimModel (α := α) j
  let kind ← getStrField j "kind"
  let x0 ← getNumList (α := α) j "x0"
  let p0 ← getNumList (α := α) j "p"
  let times ← getNumList (α := α) j "times"
  let fuel := (getNatField j "fuel").toOption.getD 2000000
  let g0 ← Uniform.init (α := α) j
  let vol0 : α := (getNum (α := α) j "vol0").toOption.getD 1
  let qlen := (getNatField j "qlen").toOption.getD times.length
  let qdt : α := (getNum (α := α) j "qdt").toOption.getD m.dt
  let q0 := (DQ.setup m.props.length qlen qdt).setCurrentTime m.t0
  let gen := Uniform.gen (α := α)
  -- the volume object is initialised after seeding and before the simulation (it may draw)
  let (vm, g0) : VolModel α × Uniform.σ α ← match j.getObjVal? "volmodel" with
    | .ok v => do
      let ty ← getStrField v "type"
      match ty with
      | "stt" => pure (initTimeThreshold gen m.twoPi (← getNum v "ln2") (← getNum v "cycle") (← getNum v "avg")
                        (← getNum v "noise") m.t0 vol0 g0)
      | "statedep" => pure (initStateDep gen m.twoPi (← getNum v "avg") (← getNum v "noise")
                        (← decTerm (← v.getObjVal? "growth")) g0)
      | _ => do pure ((← decVolModel v), g0)
    | .error _ => pure (.const, g0)
  let s0 := initState m x0 p0 g0 vol0 q0
  let iter ← match kind with
    | "ssa" => pure (ssaIter gen m times)
    | "delay" => pure (delayIter gen m times)
    | "volume" => pure (volumeIter gen m vm times)
    | "delayvolume" => pure (delayVolumeIter gen m vm times)
    | k => throw s!"bad simulator kind {k}"
  match runLoop iter times.length fuel s0 with
  | none => return Json.mkObj [("status", Json.str "out-of-fuel")]
  | some s =>
    let log := if getBoolD j "wantLog" false then Json.arr (s.log.reverse.map encEvent).toArray else Json.null
    return Json.mkObj [
      ("status", Json.str (if s.bad then "bad" else "ok")),
      ("rows", Json.arr (s.rows.map encList).toArray),
      ("volume", encList s.volTrace),
      ("divided", Json.bool s.divided),
      ("final", encList s.x), ("params", encList s.p),
      ("queue", dumpQueue s.q),
      ("log", log)]

/-- consecutive draws from one of the samplers of random.pyx after seeding. -/
def jobRv (j : Json) : Except String Json := do
  let kind ← getStrField j "kind"
  let n ← getNatField j "n"
  let args ← getNumList (α := α) j "args"
  let twoPi : α ← getNum j "twoPi"
  let gen := Uniform.gen (α := α)
  let mut s ← Uniform.init (α := α) j
  let mut outs : Array Json := #[]
  for _ in List.range n do
    match kind with
    | "uniform" =>
      let (u, s') := gen s
      s := s'; outs := outs.push (Codec.enc u)
    | "exponential" =>
      let (u, s') := exponentialRv gen (args.getD 0 1) s
      s := s'; outs := outs.push (Codec.enc u)
    | "normal" =>
      let (u, s') := normalRv gen twoPi (args.getD 0 0) (args.getD 1 1) s
      s := s'; outs := outs.push (Codec.enc u)
    | "gamma" =>
      match gammaRv gen twoPi (args.getD 0 1) (args.getD 1 1) 10000 s with
      | some (u, s') => s := s'; outs := outs.push (Codec.enc u)
      | none => throw "gamma: out of fuel"
    | k => throw s!"bad rv kind {k}"
  return Json.mkObj [("draws", Json.arr outs)]

/-- `Rule.py_execute_rule` / `py_execute_volume_rule` on explicit vectors. -/
def jobRule (j : Json) : Except String Json := do
  let r ← decRule (α := α) (← j.getObjVal? "rule")
  let x ← getNumList (α := α) j "x"
  let p ← getNumList (α := α) j "p"
  let vol : α ← getNum j "vol"
  let t : α ← getNum j "t"
  let dt : α ← getNum j "dt"
  let (x', p') := r.execute x p vol t dt (getBoolD j "rs" true)
  return Json.mkObj [("x", encList x'), ("p", encList p')]

def dumpMState (m : MState α) : Json :=
  Json.mkObj [("species", Json.arr (m.species.map Json.str).toArray), ("speciesVals", encList m.speciesVals),
    ("params", Json.arr (m.params.map Json.str).toArray),
    ("paramVals", Json.arr (m.paramVals.map (fun v => match v with | some x => Codec.enc x | none => Json.null)).toArray),
    ("initialized", Json.bool m.initialized), ("dummy", Json.num (JsonNumber.fromNat m.dummy)),
    ("rules", Json.arr (m.rules.map (fun r => Json.arr #[Json.str r.1, Json.arr (r.2.map Json.str).toArray])).toArray)]

def decMOp (j : Json) : Except String (MOp α) := do
  let a ← j.getArr?
  let tag ← (a.getD 0 Json.null).getStr?
  let arg (i : Nat) : Json := a.getD i Json.null
  let strs (x : Json) : Except String (List String) := do (← x.getArr?).toList.mapM (·.getStr?)
  match tag with
  | "addSpecies" => return .addSpecies (← (arg 1).getStr?)
  | "createParameter" => return .createParameter (← (arg 1).getStr?) (← Codec.dec (arg 2))
  | "setParameter" => return .setParameter (← (arg 1).getStr?) (← Codec.dec (arg 2))
  | "setSpecies" =>
    let kv ← (arg 1).getArr?
    let vals ← kv.toList.mapM (fun e => do
      let p ← e.getArr?
      return ((← (p.getD 0 Json.null).getStr?), (← Codec.dec (α := α) (p.getD 1 Json.null))))
    return .setSpecies vals
  | "createMassAction" =>
    let k ← match (arg 3).getObjVal? "name" with
      | .ok n => pure (KArg.name (← n.getStr?))
      | .error _ => do pure (KArg.num (← Codec.dec (α := α) (← (arg 3).getObjVal? "num")))
    return .createMassAction (← strs (arg 1)) (← strs (arg 2)) k
  | "createDelayed" =>
    let k ← match (arg 3).getObjVal? "name" with
      | .ok n => pure (KArg.name (← n.getStr?))
      | .error _ => do pure (KArg.num (← Codec.dec (α := α) (← (arg 3).getObjVal? "num")))
    return .createDelayed (← strs (arg 1)) (← strs (arg 2)) k (← strs (arg 4)) (← (arg 5).getStr?)
  | "createRule" => return .createAdditiveRule (← (arg 1).getStr?) (← strs (arg 2))
  | "initialize" => return .initialize
  | t => throw s!"bad model op {t}"

/-- a history of edits on an empty model; the state after every operation. -/
def jobModelOps (j : Json) : Except String Json := do
  let ops ← (← getArr j "ops").toList.mapM (decMOp (α := α))
  let mut m : MState α := MState.empty
  let mut outs : Array Json := #[]
  for op in ops do
    match m.step op with
    | .ok m' => m := m'; outs := outs.push (Json.mkObj [("result", "ok"), ("state", dumpMState m)])
    | .error e =>
      -- `_add_species` / `_add_param` clear `initialized` before they can raise
      m := match op with
        | .initialize => m
        | .setSpecies _ => m
        | _ => { m with initialized := false }
      outs := outs.push (Json.mkObj [("result", "error"), ("msg", e), ("state", dumpMState m)])
  return Json.mkObj [("outs", Json.arr outs)]

def decPriorSpec (j : Json) : Except String (PriorSpec α) := do
  let ty ← getStrField j "type"
  let a ← getNumList (α := α) j "args"
  let g (i : Nat) : α := a.getD i 0
  match ty with
  | "uniform" => return .uniform (g 0) (g 1)
  | "gaussian" => return .gaussian (g 0) (g 1)
  | "exponential" => return .exponential (g 0)
  | "gamma" => return .gamma (g 0) (g 1) (g 2)
  | "beta" => return .beta (g 0) (g 1) (g 2)
  | "log-uniform" => return .logUniform (g 0) (g 1)
  | "log-gaussian" => return .logGaussian (g 0) (g 1)
  | t => throw s!"bad prior type {t}"

/-- `check_prior` on a vector of (prior, positive flag, value). -/
def jobPrior (j : Json) : Except String Json := do
  let pi : α ← getNum j "pi"
  let items ← (← getArr j "items").toList.mapM (fun it => do
    let spec ← decPriorSpec (α := α) it
    let x : α ← getNum it "x"
    return (spec, getBoolD it "positive" false, x))
  match checkPrior pi items with
  | some lp => return Json.mkObj [("lp", Codec.enc lp)]
  | none => return Json.mkObj [("lp", Json.null)]

def decKV (j : Json) : Except String (List (Nat × α)) := do
  let a ← j.getArr?
  a.toList.mapM (fun e => do
    let p ← e.getArr?
    return ((← (p.getD 0 Json.null).getNat?), (← Codec.dec (α := α) (p.getD 1 Json.null))))

def decRows (j : Json) : Except String (List (List α)) := do
  let a ← j.getArr?
  a.toList.mapM (fun r => do (← r.getArr?).toList.mapM (Codec.dec (α := α)))

/-- data extraction and the deterministic inference cost.  Without `simrows` the job answers with the
aligned data array and the parameter vector each trajectory is to be simulated with; with `simrows`
(the implementation's own simulations for exactly those vectors) it answers with the cost. -/
def jobInfer (j : Json) : Except String Json := do
  let measurements ← getStrList j "measurements"
  let frames ← (← getArr j "frames").toList.mapM (fun fj => do
    let cols ← (← fj.getObjVal? "cols").getObj?
    let names ← getStrList fj "order"
    names.mapM (fun n => do
      match cols.get? n with
      | some c => do pure (n, ← (← c.getArr?).toList.mapM (Codec.dec (α := α)))
      | none => throw s!"missing column {n}"))
  let T ← getNatField j "T"
  let data := frames.map (fun f => extractFrame f measurements T)
  let pi : α ← getNum j "pi"
  let norm : α ← getNum j "norm"
  let measIdx ← getNatList j "measIdx"
  let defaults ← decKV (α := α) (← j.getObjVal? "defaults")
  let thetaIdx ← getNatList j "thetaIdx"
  let theta ← getNumList (α := α) j "theta"
  let current ← getNumList (α := α) j "current"
  let priors ← (← getArr j "priors").toList.mapM (fun it => do
    return ((← decPriorSpec (α := α) it), getBoolD it "positive" false))
  let tj ← getArr j "trajs"
  let trajs ← (tj.toList.zip data).mapM (fun (t, d) => do
    return ({ x0 := ← getNumList (α := α) t "x0", cond := ← decKV (α := α) (← t.getObjVal? "cond"),
              times := ← getNumList (α := α) t "times", data := d } : Traj α))
  let base := applyDict (applyDict current defaults) (thetaIdx.zip theta)
  let enc2 (rows : List (List α)) : Json := Json.arr (rows.map encList).toArray
  match j.getObjVal? "simrows" with
  | .error _ =>
    return Json.mkObj [("data", Json.arr (data.map enc2).toArray),
      ("params", Json.arr (trajs.map (fun tr => encList (applyDict base tr.cond))).toArray)]
  | .ok sr =>
    let rowsPer ← (← sr.getArr?).toList.mapM (decRows (α := α))
    -- the supplied simulations, looked up by (parameters, initial state, time points)
    let key (p x0 t : List α) : String := (Json.arr #[encList p, encList x0, encList t]).compress
    let table := (trajs.zip rowsPer).map (fun (tr, rows) => (key (applyDict base tr.cond) tr.x0 tr.times, rows))
    let sim (p x0 t : List α) : List (List α) :=
      match table.find? (fun e => e.1 == key p x0 t) with
      | some e => e.2
      | none => []
    match cost sim pi norm measIdx defaults priors thetaIdx trajs current theta with
    | some c => return Json.mkObj [("cost", Codec.enc c)]
    | none => return Json.mkObj [("cost", Json.null)]

/-- `compute_J` and `compute_Zj` on an explicit interface description. -/
def jobSens (j : Json) : Except String Json := do
  let m ← decSimModel (α := α) j
  let x ← getNumList (α := α) j "x"
  let p ← getNumList (α := α) j "p"
  let t : α ← getNum j "t"
  let h : α ← getNum j "h"
  let meth ← match (getStrField j "method").toOption.getD "fourth_order_central_difference" with
    | "fourth_order_central_difference" => pure DiffMethod.fourth
    | "central_difference" => pure DiffMethod.central
    | "backward_difference" => pure DiffMethod.backward
    | "forward_difference" => pure DiffMethod.forward
    | s => throw s!"bad method {s}"
  let pj ← getNatField j "pj"
  return Json.mkObj [("J", Json.arr ((computeJ meth m x p t h).map encList).toArray),
                     ("Z", encList (computeZj meth m x p pj t h)),
                     ("f", encList (evaluateModel m x p t))]

/-- `rhs_global` at a list of (state, time) points. -/
def jobRhs (j : Json) : Except String Json := do
  let m ← decSimModel (α := α) j
  let p ← getNumList (α := α) j "p"
  let pts ← getArr j "points"
  let outs ← pts.toList.mapM (fun pt => do
    let x ← getNumList (α := α) pt "x"
    let t : α ← getNum pt "t"
    let r := rhsGlobal m x p t
    return Json.mkObj [("dx", encList r.1), ("x", encList r.2.1), ("p", encList r.2.2)])
  return Json.mkObj [("points", Json.arr outs.toArray)]

/-- a written formula: parse it, translate it against the model's names, evaluate the tree and the meaning. -/
def jobFormula (j : Json) : Except String Json := do
  let src ← getStrField j "src"
  let species ← getStrList j "species"
  let params ← getStrList j "params"
  let x := vecFn (← getNumList (α := α) j "x")
  let p := vecFn (← getNumList (α := α) j "p")
  let V : α ← getNum j "V"
  let t : α ← getNum j "t"
  match parseFormula (α := α) src with
  | .error e => return Json.mkObj [("parse", "error"), ("msg", e)]
  | .ok e =>
    let env (vol : α) : Env α := fun name =>
      let nm := lookupName species params name
      match species.idxOf? nm with
      | some i => some (x i)
      | none => match params.idxOf? nm with
        | some i => some (p i)
        | none => if nm = "volume" then some vol else if nm = "t" then some t else none
    let meaning := match Expr.eval (env V) e with | some v => Codec.enc v | none => Json.null
    match translate species params e with
    | .error m => return Json.mkObj [("parse", "ok"), ("translate", "error"), ("msg", m), ("meaning", meaning)]
    | .ok tr =>
      return Json.mkObj [("parse", "ok"), ("translate", "ok"), ("eval", Codec.enc (tr.eval x p t)),
        ("voleval", Codec.enc (tr.volEval x p V t)), ("meaning", meaning)]

open Bioscrape.Sbml in
/-- the kinetic law `add_reaction` writes, evaluated as plain mathematics in a given environment. -/
def jobKlaw (j : Json) : Except String Json := do
  let ty ← getStrField j "type"
  let stochastic := getBoolD j "stochastic" false
  let envj ← (← j.getObjVal? "env").getObj?
  let env : Env α := fun name => match envj.get? name with
    | some v => (Codec.dec (α := α) v).toOption
    | none => none
  let law : Expr α ← match ty with
    | "massaction" => pure (klMassAction stochastic (← getStrField j "k") (← getStrList j "reactants"))
    | "general" => do
        match parseFormula (α := α) (← getStrField j "rate") with
        | .ok e => pure e
        | .error m => throw m
    | t => pure (klHill t (← getStrField j "k") (← getStrField j "K") (← getStrField j "n") (← getStrField j "s1")
                   ((getStrField j "d").toOption.getD ""))
  let docStoich := (dedupCount ((getStrList j "reactants").toOption.getD [])).map (fun sc =>
    Json.arr #[Json.str sc.1, Json.num (JsonNumber.fromNat sc.2)])
  let value := if ty == "general" then docEval env law else Expr.eval env law
  return Json.mkObj [("value", match value with | some v => Codec.enc v | none => Json.null),
                     ("idents", Json.arr ((law.idents).map Json.str).toArray),
                     ("stoich", Json.arr docStoich.toArray)]

open Bioscrape.Sbml in
/-- import of an un-annotated document: rules, local parameters, initial values, expanded stoichiometry. -/
def jobSbmlImport [DecidableEq α] (j : Json) : Except String Json := do
  let known ← getStrList j "known"
  let rules ← (← getArr j "rules").toList.mapM (fun rj => do
    let kind ← match (← getStrField rj "kind") with
      | "assignment" => pure RuleKind.assignment
      | "rate" => pure RuleKind.rate
      | _ => pure RuleKind.algebraic
    match parseFormula (α := α) (← getStrField rj "math") with
    | .ok e => pure ({ kind, var := ← getStrField rj "var", math := e } : SbmlRule α)
    | .error m => throw m)
  let imp := importRules (fun s => known.contains s) rules
  let species ← (← getArr j "species").toList.mapM (fun sj => do
    let a := (getNum (α := α) sj "amount").toOption
    let c := (getNum (α := α) sj "conc").toOption
    return Json.arr #[Json.str (← getStrField sj "id"), Codec.enc (initialValue a c)])
  let refs ← (← getArr j "refs").toList.mapM (fun r => do
    let a ← r.getArr?
    return ((← (a.getD 0 Json.null).getStr?), (← (a.getD 1 Json.null).getNat?)))
  return Json.mkObj [("assignments", Json.arr (imp.assignments.map (fun a => Json.str a.1)).toArray),
                     ("rateReactions", Json.arr (imp.rateReactions.map (fun a => Json.str a.1)).toArray),
                     ("species", Json.arr species.toArray),
                     ("expanded", Json.arr ((expand refs).map Json.str).toArray)]

open Bioscrape.Sbml in
/-- annotation text: what is written for a key/value list, and what is read back from a text. -/
def jobAnnot (j : Json) : Except String Json := do
  let kvs ← (← getArr j "kvs").toList.mapM (fun r => do
    let a ← r.getArr?
    return ((← (a.getD 0 Json.null).getStr?).toList, (← (a.getD 1 Json.null).getStr?).toList))
  let text := encodeAnnotation kvs
  let back := decodeAnnotation ((getStrField j "text").toOption.map String.toList |>.getD text)
  return Json.mkObj [("text", Json.str (String.ofList text)),
    ("decoded", Json.arr (back.map (fun kv => Json.arr #[Json.str (String.ofList kv.1), Json.str (String.ofList kv.2)])).toArray),
    -- every value also as the importer reads a list of names: `v.split(',')`
    ("lists", Json.arr (back.map (fun kv => Json.arr ((splitOnChar ',' kv.2).map (fun w => Json.str (String.ofList w))).toArray)).toArray)]


/-! ### division and lineage -/

def decVolSplit (s : String) : Except String VolSplit :=
  match s with
  | "binomial" => pure .binomial
  | "duplicate" => pure .duplicate
  | "perfect" => pure .perfect
  | t => throw s!"bad volume split {t}"

def decSplitter (j : Json) : Except String (Splitter α) := do
  return { vs := ← decVolSplit (← getStrField j "volume"), noise := ← getNum j "noise",
           perfect := ← getNatList j "perfect", binomial := ← getNatList j "binomial" }

def encDaughters (d : Daughters α) : Json :=
  Json.mkObj [("d", encList d.dState), ("e", encList d.eState), ("dVol", Codec.enc d.dVol), ("eVol", Codec.enc d.eVol)]

/-- `VolumeSplitter.py_partition` after seeding. -/
def jobPartition (j : Json) : Except String Json := do
  let kind ← getStrField j "kind"
  let state ← getNumList (α := α) j "state"
  let vol : α ← getNum j "vol"
  let g0 ← Uniform.init (α := α) j
  let gen := Uniform.gen (α := α)
  match kind with
  | "perfectbinomial" => return encDaughters (partitionPerfectBinomial gen state vol g0).1
  | "general" =>
    return encDaughters (partitionGeneral gen (← getNum j "noise") (← getNum j "eps8") (← getNatList j "perfect")
      (← getNatList j "binomial") state vol g0).1
  | "lineage" =>
    let sp ← decSplitter (α := α) j
    return encDaughters (partitionLineage gen sp.vs sp.noise (← getNum j "eps8") sp.perfect sp.binomial state vol g0).1
  | k => throw s!"bad splitter kind {k}"

def optNat (j : Json) (k : String) : Option Nat := (getNatField j k).toOption

def decVolRule (j : Json) : Except String (VolRule α) := do
  match ← getStrField j "type" with
  | "linear" => return .linear (← getNatField j "growth") (optNat j "noise")
  | "multiplicative" => return .mult (← getNatField j "growth") (optNat j "noise")
  | "assignment" => return .assign (← decTerm (← j.getObjVal? "term"))
  | "ode" => return .ode (← decTerm (← j.getObjVal? "term"))
  | t => throw s!"bad volume rule {t}"

def decDivRule (j : Json) : Except String (DivRule α) := do
  match ← getStrField j "type" with
  | "time" => return .time (← getNatField j "thr") (optNat j "noise")
  | "volume" => return .volume (← getNatField j "thr") (optNat j "noise")
  | "deltaV" => return .deltaV (← getNatField j "thr") (optNat j "noise")
  | "general" => return .general (← decTerm (← j.getObjVal? "term"))
  | t => throw s!"bad division rule {t}"

def decDeathRule (j : Json) : Except String (DeathRule α) := do
  let comp : Int := match j.getObjVal? "comp" with
    | .ok c => (c.getInt?).toOption.getD 1
    | .error _ => 1
  match ← getStrField j "type" with
  | "species" => return .species (← getNatField j "sp") (← getNatField j "thr") comp (optNat j "noise")
  | "param" => return .param (← getNatField j "par") (← getNatField j "thr") comp (optNat j "noise")
  | "general" => return .general (← decTerm (← j.getObjVal? "term"))
  | t => throw s!"bad death rule {t}"

def decVolEvent (j : Json) : Except String (VolEvent α) := do
  match ← getStrField j "type" with
  | "linear" => return .linear (← getNatField j "growth")
  | "multiplicative" => return .mult (← getNatField j "growth")
  | "general" => return .general (← decTerm (← j.getObjVal? "term"))
  | t => throw s!"bad volume event {t}"

def decCellModel (j : Json) : Except String (CellModel α) := do
  let arr (k : String) := ((getArr j k).toOption.getD #[]).toList
  return { nSpecies := ← getNatField j "nSpecies",
           props := ← (arr "props").mapM (decProp (α := α)),
           evProps := ← (arr "evProps").mapM (decProp (α := α)),
           U := ← decIntCols j "U",
           rules := ← (arr "rules").mapM (decRule (α := α)),
           volRules := ← (arr "volRules").mapM (decVolRule (α := α)),
           divRules := ← (arr "divRules").mapM (decDivRule (α := α)),
           deathRules := ← (arr "deathRules").mapM (decDeathRule (α := α)),
           volEvents := ← (arr "volEvents").mapM (decVolEvent (α := α)),
           nDivEvents := ← getNatField j "nDivEvents", nDeathEvents := ← getNatField j "nDeathEvents",
           twoPi := ← getNum j "twoPi", eps := ← getNum j "eps9", tol := ← getNum j "tol" }

def decCell (j : Json) : Except String (Cell α) := do
  return { state := ← getNumList j "state", vol := ← getNum j "vol", time := ← getNum j "time", v0 := ← getNum j "v0",
           t0 := ← getNum j "t0", divided := -1, dead := -1 }

def encResult (r : CellResult α) : List (String × Json) :=
  [("times", encList r.times), ("rows", Json.arr (r.rows.map encList).toArray), ("vols", encList r.vols),
   ("divided", Json.num (JsonNumber.fromInt r.divided)), ("dead", Json.num (JsonNumber.fromInt r.dead))]

/-- `py_SimulateSingleCell` (`"single": true`) or `py_SimulateCellLineage` after seeding. -/
def jobLineage (j : Json) : Except String Json := do
  let m ← decCellModel (α := α) j
  let p0 ← getNumList (α := α) j "p"
  let times ← getNumList (α := α) j "times"
  let cells ← (← getArr j "cells").toList.mapM (decCell (α := α))
  let cellFuel := (getNatField j "cellFuel").toOption.getD 200000
  let fuel := (getNatField j "fuel").toOption.getD 4000
  let g0 ← Uniform.init (α := α) j
  let gen := Uniform.gen (α := α)
  if getBoolD j "single" false then
    let v ← match cells with
      | v :: _ => pure v
      | [] => throw "no cell"
    let (r, p, _) := simulateCell gen m p0 times v cellFuel g0
    let status := if r.bad then "bad" else if r.raised then "raised" else "ok"
    return Json.mkObj ([("status", Json.str status), ("params", encList p)] ++ encResult r)
  else
    let rs ← ((getArr j "ruleSplitters").toOption.getD #[]).toList.mapM (decSplitter (α := α))
    let es ← ((getArr j "eventSplitters").toOption.getD #[]).toList.mapM (decSplitter (α := α))
    match simulateLineage gen m (← getNum j "eps8") (← getNum j "eps12") rs es times cells p0 fuel cellFuel g0 with
    | none => return Json.mkObj [("status", Json.str "out-of-fuel")]
    | some (f, c) =>
      let final := times.getD (times.length - 1) 0
      let tooFast := f.queue.any (fun q => fateOf final m.eps q.1 == Fate.tooFast)
      let status := if c.bad then "bad" else if c.raised then "raised" else if tooFast then "too-fast" else "ok"
      let optN (o : Option Nat) : Json := match o with
        | some n => Json.num (JsonNumber.fromNat n)
        | none => Json.null
      let nodes := f.nodes.map (fun nd => Json.mkObj (encResult nd.result ++
        [("parent", optN nd.parent),
         ("daughters", match nd.daughters with
            | some (a, b) => Json.arr #[Json.num (JsonNumber.fromNat a), Json.num (JsonNumber.fromNat b)]
            | none => Json.null)]))
      return Json.mkObj [("status", Json.str status), ("nodes", Json.arr nodes.toArray), ("params", encList c.p)]

def dispatch (op : String) (j : Json) : Except String Json :=
  match op with
  | "prop" => jobProp (α := α) j
  | "term" => jobTerm (α := α) j
  | "network" => jobNetwork (α := α) j
  | "dq" => jobDQ (α := α) j
  | "sim" => jobSim (α := α) j
  | "rv" => jobRv (α := α) j
  | "rule" => jobRule (α := α) j
  | "modelops" => jobModelOps (α := α) j
  | "prior" => jobPrior (α := α) j
  | "infer" => jobInfer (α := α) j
  | "sens" => jobSens (α := α) j
  | "rhs" => jobRhs (α := α) j
  | "formula" => jobFormula (α := α) j
  | "klaw" => jobKlaw (α := α) j
  | "partition" => jobPartition (α := α) j
  | "lineage" => jobLineage (α := α) j
  | _ => throw s!"unknown op {op}"
end

open Bioscrape.Entry Bioscrape.Generated in
/-- the entry-point model on one option combination. -/
def jobEntry (j : Json) : Except String Json := do
  let b (k : String) := getBoolD j k false
  let vol ← match (getStrField j "volume").toOption.getD "off" with
    | "off" => pure VolOpt.off
    | "true" => pure VolOpt.flagTrue
    | "number" => pure VolOpt.number
    | "object" => pure VolOpt.object
    | v => throw s!"bad volume option {v}"
  let o : Bioscrape.Entry.Options :=
    ⟨b "model", b "interface", b "stochastic", b "delay", b "safe", vol, b "dataframe"⟩
  let species := getStrListD j "species"
  match simulateModel o with
  | .optionError m => return Json.mkObj [("outcome", "optionError"), ("msg", m)]
  | .internalError m => return Json.mkObj [("outcome", "internalError"), ("msg", m)]
  | .result c s i v n d =>
    return Json.mkObj [("outcome", "result"), ("class", toString (repr c)), ("simulator", toString (repr s)),
      ("interface", toString (repr i)), ("hasVolume", Json.bool v), ("named", Json.bool n), ("dataframe", Json.bool d),
      ("timeAxis", Json.bool (storesTimeAxis c)),
      ("columns", Json.arr ((columns species n v).map Json.str).toArray)]

/-- the `mxstep` retry ladder of the deterministic simulator for a given cap. -/
def jobLadder (j : Json) : Except String Json := do
  let cap ← getNatField j "cap"
  return Json.mkObj [("ladder", Json.arr ((Bioscrape.mxstepLadder cap 40 500).map (fun n => Json.num (JsonNumber.fromNat n))).toArray)]

open Bioscrape.PowText in
/-- the power-text model on one expression tree (`{"atom": n}` / `{"pow": [a, b]}`). -/
partial def decPowTree (j : Json) : Except String PowTree :=
  match j.getObjVal? "atom" with
  | .ok a => match a.getNat? with
    | .ok n => pure (.atom n)
    | .error e => throw e
  | .error _ =>
    match j.getObjVal? "pow" with
    | .ok (Json.arr #[a, b]) => do
      let x ← decPowTree a
      let y ← decPowTree b
      pure (.pow x y)
    | _ => throw "bad tree"

open Bioscrape.PowText in
def encPowTree : PowTree → Json
  | .atom n => Json.mkObj [("atom", Json.num (JsonNumber.fromNat n))]
  | .pow a b => Json.mkObj [("pow", Json.arr #[encPowTree a, encPowTree b])]

open Bioscrape.PowText in
def jobPowText (j : Json) : Except String Json := do
  let e ← decPowTree (← j.getObjVal? "tree")
  let toks := printL3 e
  let text := String.join (toks.map (fun t => match t with
    | .id n => s!"x{n}" | .hat => "^" | .lp => "(" | .rp => ")"))
  let read := match readE (2 * size e + 2) toks with
    | some (r, []) => encPowTree r
    | _ => Json.null
  return Json.mkObj [("text", Json.str text), ("read", read), ("readBack", encPowTree (readBack e)),
    ("leftAtomic", Json.bool (leftAtomic e))]

def handle (line : String) : Json :=
  match Json.parse line with
  | .error e => Json.mkObj [("error", Json.str s!"parse: {e}")]
  | .ok j =>
    let r : Except String Json := do
      let op ← getStrField j "op"
      let num := (getStrField j "num").toOption.getD "float"
      if op == "entry" then jobEntry j
      else if op == "annot" then jobAnnot j
      else if op == "powtext" then jobPowText j
      else if op == "ladder" then jobLadder j
      else if op == "sbmlimport" then jobSbmlImport (α := Rat) j
      else if num == "rat" then dispatch (α := Rat) op j else dispatch (α := Float) op j
    match r with
    | .ok out => out
    | .error e => Json.mkObj [("error", Json.str e)]

partial def loop (h : IO.FS.Stream) (out : IO.FS.Stream) : IO Unit := do
  let line ← h.getLine
  if line.isEmpty then return ()
  let l := line.trimAscii.toString
  if !l.isEmpty then
    out.putStrLn (handle l).compress
  loop h out

def main : IO Unit := do
  let out ← IO.getStdout
  loop (← IO.getStdin) out
  out.flush
