import Driver.Codec

/-
`modeldriver`: one JSON job per input line, one JSON answer per output line
(DESIGN §1.2).  Every job names the number type it is to be run in
(`"num": "float" | "rat"`).
-/
open Lean Bioscrape Driver

section
variable {α : Type} [Codec α] [Zero α] [One α] [Add α] [Sub α] [Mul α] [Div α] [NatCast α] [IntCast α]
  [LT α] [LE α] [DecidableLT α] [DecidableLE α] [Transc α]

def jobProp (j : Json) : Except String Json := do
  let q : Propensity α ← decProp (← j.getObjVal? "prop")
  let x := vecFn (← getNumList (α := α) j "x")
  let p := vecFn (← getNumList (α := α) j "p")
  let V : α ← getNum j "V"
  let t : α ← getNum j "t"
  return Json.mkObj [
    ("det", Codec.enc (q.det x p t)), ("vol", Codec.enc (q.vol x p V t)),
    ("stoch", Codec.enc (q.stoch x p t)), ("svol", Codec.enc (q.svol x p V t))]

def jobTerm (j : Json) : Except String Json := do
  let e : Term α ← decTerm (← j.getObjVal? "term")
  let x := vecFn (← getNumList (α := α) j "x")
  let p := vecFn (← getNumList (α := α) j "p")
  let V : α ← getNum j "V"
  let t : α ← getNum j "t"
  return Json.mkObj [("eval", Codec.enc (e.eval x p t)), ("voleval", Codec.enc (e.volEval x p V t))]

/-- A whole model: species indexing, stoichiometry, propensities of the plain and
the safe interface in the four modes, and the deterministic derivative. -/
def jobNetwork (j : Json) : Except String Json := do
  let decl ← getStrList j "species"
  let ic := getStrListD j "ic"
  let rj ← getArr j "reactions"
  let rdefs ← rj.toList.mapM decRxnDef
  let sidx := speciesOrder decl rdefs ic
  let pmap ← j.getObjVal? "pindex"
  let props : List (Propensity α) ← (rj.toList.zip rdefs).mapM (fun (jr, rd) => do
    decPropNamed sidx pmap rd.reactants (← jr.getObjVal? "prop"))
  let U := stoichCols sidx rdefs
  let D := delayStoichCols sidx rdefs
  let base : List (String × Json) := [
    ("species", Json.arr (sidx.map Json.str).toArray),
    ("U", encIntCols U), ("D", encIntCols D)]
  -- evaluation points (optional)
  let pts := (getArr j "points").toOption.getD #[]
  let p := vecFn (← getNumList (α := α) j "p")
  let outs ← pts.toList.mapM (fun pt => do
    let xj ← pt.getObjVal? "x"
    let xs : List α ← sidx.mapM (fun s => do Codec.dec (← xj.getObjVal? s))
    let x := vecFn xs
    let V : α ← getNum pt "V"
    let t : α ← getNum pt "t"
    let n := sidx.length
    let plain (m : Mode) := encList (computePropensities m props x p V t)
    let safe (m : Mode) := encList (computePropensitiesSafe m n U D props x p V t)
    return Json.mkObj [
      ("det", plain .det), ("vol", plain .vol), ("stoch", plain .stoch), ("svol", plain .svol),
      ("sdet", safe .det), ("svolume", safe .vol), ("sstoch", safe .stoch), ("ssvol", safe .svol),
      ("deriv", encList (derivative n U D props x p t))])
  return Json.mkObj (base ++ [("points", Json.arr outs.toArray)])

def dispatch (op : String) (j : Json) : Except String Json :=
  match op with
  | "prop" => jobProp (α := α) j
  | "term" => jobTerm (α := α) j
  | "network" => jobNetwork (α := α) j
  | _ => throw s!"unknown op {op}"
end

def handle (line : String) : Json :=
  match Json.parse line with
  | .error e => Json.mkObj [("error", Json.str s!"parse: {e}")]
  | .ok j =>
    let r : Except String Json := do
      let op ← getStrField j "op"
      let num := (getStrField j "num").toOption.getD "float"
      if num == "rat" then dispatch (α := Rat) op j else dispatch (α := Float) op j
    match r with
    | .ok out => out
    | .error e => Json.mkObj [("error", Json.str e)]

partial def loop (h : IO.FS.Stream) (out : IO.FS.Stream) : IO Unit := do
  let line ← h.getLine
  if line.isEmpty then return ()
  let l := line.trimAscii.toString
  if !l.isEmpty then
    out.putStrLn (handle l).compress
  loop h out

def main : IO Unit := do
  let out ← IO.getStdout
  loop (← IO.getStdin) out
  out.flush
