#!/usr/bin/env python3
"""Writes MANIFEST.json from the table below (kept in one place so it stays valid)."""
import json, os, subprocess
HERE = os.path.dirname(os.path.dirname(os.path.abspath(__file__)))
NOTE_COMMON = ("Trusted: Lean 4.33 kernel (+leanchecker in the thorough tier), axioms propext/Classical.choice/Quot.sound only; "
               "hand-written model tied to the code by differential execution (generator-bounded); Float-vs-real gap; ")
CLAIMED = {
    "C01": dict(
        text="Lean theorems (any reactant list, any ordered field with lawful pow): createMassAction det/stoch/vol/svol = documented closed forms, falling-factorial facts, Hill family forms, plain/safe interface; model = executable Lean transcription of the propensity classes, run bit-for-bit against the rebuilt implementation at the bare object, plain and safe interfaces (exhaustive over ordered reactant lists of length 0..4 on 3 species).",
        note=NOTE_COMMON + "pow accuracy / overflow outside the proof; Hill values compared within 64 ulps because Cython's ** is complex std::pow.",
        technique="Lean 4 proof + bit-exact model/implementation correspondence", ref="DESIGN.md §4 C01"),
    "C03": dict(
        text="Lean theorems: update dictionary = products - reactants with multiplicity (any lists, any species order), immediate and delayed matrix entries, cancellation, species index never holds a name twice, compressed derivative row = dense (S+S_d) x rate, initialisation fails iff a parameter is unset; executable model run against Model.py_get_update_array / delay array / species order / py_calculate_deterministic_derivative (bitwise for mass action) over random reaction lists and all 24 declaration orders.",
        note=NOTE_COMMON + "parameter indexing and general-rate term trees are read off the real object in this job (their construction is covered by C02/C08).",
        technique="Lean 4 proof + model/implementation correspondence", ref="DESIGN.md §4 C03"),
    "C20": dict(
        text="Lean theorems (any ordered floor field, histories of any length): insertion slot = clamp(round-half-up offset) (nearest / earliest / last), add touches exactly one cell, advance shifts and vacates, and queue_exactly_once: delivered + pending = added per (absolute slot, reaction) by induction over histories; partition parts sum to the original for every random stream. Executable model compared with the real ArrayDelayQueue on exhaustive short histories and random histories up to length 200 (Float and Rat), including twister-exact binomial partitions.",
        note=NOTE_COMMON + "aliasing (copy independence) cannot be expressed in the pure model and is covered by the correspondence histories only; C-cast truncation is the class law LawfulTrunc.",
        technique="Lean 4 proof (invariant over histories) + exhaustive/random correspondence", ref="DESIGN.md §4 C20"),
    "C05": dict(
        text="Lean theorems: for every uniform stream (hence every seed), network, grid and fuel the SSA loop (with its reaction_fired / rule_step / Lambda==0 flags) equals the restartable jump-process specification (ssa_refines_jump); sample_discrete returns the index whose cumulative interval contains u*Lambda, zero-propensity reactions are never chosen; over R: waiting-time tail, memorylessness, choice interval of length a_j/Lambda, one-step rectangle. The law-level composition into the master equation is NOT formalised (ssa_exact_partial). Tie: the Lean loop driven by the same MT19937-64 stream reproduces every reported row of SSASimulator bit for bit; G-test against expm(Qt) as statistical support and failing-input search.",
        note=NOTE_COMMON + "partial: CTMC composition of one-step kernels is textbook, not in Mathlib; twister equidistribution assumed; u=0 (2^-53) excluded.",
        technique="Lean 4 proof (refinement to a jump-process spec + interval-measure lemmas) + bit-exact trajectory correspondence", ref="DESIGN.md §4 C05"),
    "C06": dict(
        text="Lean theorems (every stream, unbounded steps): without rules the SSA loop moves the state only by whole net stoichiometric columns, so the reported rows form a chain of non-negative integer combinations (ssa_run_lattice, via the C05 refinement); integrality and every linear conservation law follow (integrality, conservation); sample_discrete never indexes past the last reaction; a zero-propensity state persists (absorbing_step); in safe mode a positive propensity implies every reactant, catalysts included, is present in its required number (safe_full_complement). Tie: plain/safe SSA, volume and delay loops reproduced bit for bit; the invariants are also monitored on every implementation row (exact MILP lattice membership, null-space conservation, non-negativity, absorption, counting-species test of safe firings).",
        note=NOTE_COMMON + "loop-level non-negativity of mass-action networks is monitored on the implementation, not yet proved in Lean; lattice theorems are proved for the SSA loop (delay accounting is C10, volume C11).",
        technique="Lean 4 proof (loop invariants by induction over runs) + bit-exact correspondence + invariant monitor", ref="DESIGN.md §4 C06"),
    "C10": dict(
        text="Lean theorems (every stream): one iteration of the delay loop, split into its scheduling and acting halves, delivers the earliest queue slot (amounts x delayed stoichiometry) and advances the queue when the queue time comes first; a firing with positive delay applies the immediate column and makes exactly one insertion at firing time + delay; a non-positive delay applies both parts at once; the loop performs no other queue operation (so C20's queue_exactly_once covers the loop's insertions); SSA applies both parts; fixed/none/Gaussian delay samplers as exact functions of the stream. Tie: rows and final queue of DelaySSASimulator/DelayVolumeSSASimulator reproduced bit for bit; accounting oracle with counting species; sampler draws bit for bit.",
        note=NOTE_COMMON + "partial: the loop-level accounting identity x + queued = x0 + sum firings is checked on the implementation (counting species) and follows informally from the step theorems + C20, not yet as one Lean theorem; sampler laws (Box-Muller, Marsaglia-Tsang) and zero-delay law equality are supported statistically only.",
        technique="Lean 4 proof (step theorems over the verified queue) + bit-exact correspondence + accounting oracle", ref="DESIGN.md §4 C10"),
    "C11": dict(
        text="Lean theorems (every stream): the volume loop equals a flag-free jump process whose stops are grid times and volume ticks (volume_refines_spec, whole runs); its propensities are the svol forms whose closed forms are C01's (k/V, k*V, Hill on s/V); a tick multiplies the volume by exp(g*dt) (positive, non-decreasing for g>=0, V0*exp(g dt)^n after n ticks); rows/trace/index stay aligned; stop is raised only by a dividing tick and equals the divided flag. Tie: rows, volume trace, time axis and flag reproduced bit for bit for Volume, StochasticTimeThresholdVolume (noise 0 and >0) and StateDependentVolume; growth/division oracle on implementation output; G-test vs volume-scaled CME.",
        note=NOTE_COMMON + "law-level statement partial as in C05.",
        technique="Lean 4 proof (refinement + growth algebra) + bit-exact correspondence + growth/division oracle", ref="DESIGN.md §4 C11"),
    "C09": dict(
        text="Lean theorems: for rule lists of any length in dependency order (explicit predicate DepOrdered, satisfiable: example) every rule holds after the rule pass (applyAll_holds / rules_hold_after_pass), and 'holds' is the assignment equation for species and parameter targets; rows written by the SSA and volume loops are the post-rule state from which the propensities are computed; fires_iff characterises the three schedules; a rule scheduled for T is silent at every other instant and runs at T; dt rules need a rule step and the SSA loop raises it only on arrival at a grid time; ODE rule = target + rate*dt; additive rule = sum of sources. Tie: Rule.py_execute_rule unit correspondence (all rule types/frequencies, volume and plain), trajectories with rules reproduced bit for bit in SSA/safe/volume/delay; oracle on implementation rows incl. deterministic and lineage single-cell runs (registration count, counter, schedule, ODE step).",
        note=NOTE_COMMON + "the lineage loop is tied by the row oracle here (and by the loop model of C19 when claimed); deterministic mode claims repeated rules only.",
        technique="Lean 4 proof (dependency-order induction + schedule lemmas) + bit-exact correspondence + row oracle", ref="DESIGN.md §4 C09"),
    "C07": dict(
        text="Lean theorems by kernel evaluation over the whole option lattice (128 combinations, lifted by lattice_complete): every combination yields a result, never an internal error or an abstract simulator (entry_total, entry_no_abstract_simulator); neither/both of Model and Interface is an explicit option error; every returnable result class stores the requested time points and the rows (entry_time_axis, result_rows_stored) - obligations regenerated from the constructors' source by a translator on every run; volume column iff a volume is in play; column list = species in index order ++ time ++ volume; dispatch table. Tie: the lattice x 5 models x 3 grids is enumerated completely on the real py_simulate_model and compared with the model outcome and with the property (rows, time axis, columns, first row).",
        note=NOTE_COMMON + "the dispatch is a hand model (exhaustively compared); result constructors are translated by regex (harness/extract/result_fields.py); pandas trusted; with a pre-built interface the data frame columns are positions.",
        technique="Lean 4 proof (decide +kernel over the complete finite lattice; translator-regenerated obligations) + exhaustive correspondence", ref="DESIGN.md §4 C07"),
    "C08": dict(
        text="Lean theorems (all histories / all streams): every edit clears `initialized`, only initialize sets it and it fails iff some parameter has no value; species and parameter indices are append-only (indices handed out earlier stay valid); set_parameter changes that parameter alone; a rule pass, one SSA iteration and a whole run write no parameter that is not the destination of a parameter-assigning rule (jump_run_params_frame), the loop works on a copy of the initial condition; mt_seed overwrites all 312 words and the index. Tie and end-to-end decision: random edit histories on the real Model vs the Lean state machine after every operation, then vs a freshly built model of the same definition by seeded simulation in five modes (bitwise by species name), repeatability, dictionaries before/after, interface reuse scenarios.",
        note=NOTE_COMMON + "the statement 'same definition and seed => same output' itself is decided by the correspondence/oracle run (histories bounded by the generator), the Lean part proves the mechanisms it rests on; `initialized` is not Python-visible and is observed through interface refusal.",
        technique="Lean 4 proof (state-machine invariants, parameter frame by induction over runs) + history correspondence", ref="DESIGN.md §4 C08"),
    "C16": dict(
        text="Lean theorems over R against Mathlib's own densities: the model of each prior returns log(gaussianPDFReal), log(exponentialPDFReal), log(gammaPDFReal) (shape, rate), log(betaPDFReal), log(1/(ub-lb)), the log-uniform and log-normal densities written out, inside the support, and rejects (none = -inf posterior) outside it; the 'positive' flag rejects any vector with a negative entry; the log-prior of an accepted vector is the sum; the dispatch chain prior type -> method is regenerated from pid_interfaces.py by a translator and checked by decide. Tie: PIDInterface.check_prior vs the same Lean definitions run in Float (1e-12) over the seven families, boundary-near and out-of-support values, vectors of 1..4 parameters, flags; oracle scipy.stats logpdf; posterior at out-of-support theta through InferenceSetup.cost_function.",
        note=NOTE_COMMON + "scipy.special.gamma/beta values are inputs of the model (taken to compute Gamma and B); numpy exp/log vs libm within 1e-12; underflow of far-tail densities excluded.",
        technique="Lean 4 proof (identities against Mathlib pdfs; translator-regenerated dispatch table) + correspondence", ref="DESIGN.md §4 C16"),
    "C15": dict(
        text="Lean theorems: data_aligned (entry [t][m] of the array handed to the likelihood is row t of the column named by measurement m, any M, T, column order; with the reshape-only variant refuted at M=T=2); the likelihood is -(sum over trajectories, measurements, time points of |data - sim_n|^p)^(1/p) with sim_n run from trajectory n's own initial state, time points and (evaluation parameters overridden by its own condition only) (logLikelihood_formula); symmetric in the trajectories and in the (species, column) pairs (List.Perm); cost_history_free: when the defaults cover every parameter the working parameter vector, hence the cost, is independent of what earlier evaluations left in the shared array; -inf outside the prior's support. Tie: LL_data compared exactly, cost compared with the Lean model fed with the implementation's own simulations of the parameter vectors the model requests; oracle = the stated formula with fresh simulations, history and permutation checks on the real cost_function.",
        note=NOTE_COMMON + "LSODA is a parameter of the model (C04); pandas column lookup and numpy transpose/reshape are modelled by index functions; stochastic cost only through the shared code paths.",
        technique="Lean 4 proof (index arithmetic, permutation invariance, history-freeness) + correspondence + formula oracle", ref="DESIGN.md §4 C15"),
    "C18": dict(
        text="Lean theorems over any linearly ordered field: the fourth-order central stencil is exact on quartics (derivative c1), central on quadratics, forward/backward on linear functions, with their classical leading error terms on the next monomial (-4h^4 = h^4/30*5!, h^2, +-h) and linearity (so exactness extends to all polynomials of the scheme's order); J[i][j] differentiates equation i in state j, Z[i] equation i in the named parameter; hence exact Jacobians for rate equations that are quartic per coordinate (all mass action of order <= 4); the parameter writes of compute_Zj end with the original values for all four schemes and any number of equations. Tie: py_get_jacobian / py_get_sensitivity_to_parameter vs the Lean stencils on the Lean derivative (2e-10) and vs sympy-differentiated rate equations within the scheme's bound; parameter dictionary before/after.",
        note=NOTE_COMMON + "partial: general C^k error bounds via Taylor's theorem are not formalised (the oracle evaluates the derivative bound numerically); np.round to 10 decimals is not modelled.",
        technique="Lean 4 proof (stencil algebra by field_simp/ring; write-trace induction) + correspondence + symbolic-derivative oracle", ref="DESIGN.md §4 C18"),
    "C04": dict(
        text="Lean theorems: the right-hand side handed to the integrator is, without rules, exactly (S + S_d) x rate(x, t) per species (rhsGlobal_eq, via C03's derivative_spec: delayed stoichiometry counted as if the delay were zero) and with rules the derivative of the rule-updated state; the mxstep retry ladder (500, 5000, 50000, 500000); a failed integration is never reported as numbers; the result is the first successful attempt with rules re-applied to the rows; and CONDITIONALLY on the integrator's accuracy contract (SolverAccurate) every reported row is within tolerance of the exact solution (det_accurate - the partial form of the property). Tie: rhs_global(x, t) vs the Lean rhsGlobal (bitwise for mass action); end-to-end validation of the assumed contract against expm closed forms (linear) and DOP853 at 1e-12 (non-linear, time-dependent), uniform and irregular grids, first row.",
        note=NOTE_COMMON + "partial: LSODA's accuracy and step control are assumed, not proved; they are sampled by the end-to-end validation (tolerance 2e-5(1+|x|)).",
        technique="Lean 4 proof (RHS = rate equations; conditional accuracy) + RHS correspondence + reference-solution oracle", ref="DESIGN.md §4 C04"),
    "C17": dict(
        text="The pickling code is a set of hand-kept tables, so the model is REGENERATED from the source on every run by a translator (declared cdef attributes, __getstate__ tuple positions incl. inherited prefix/suffix, __setstate__ index assignments, C-vector clear/rebuild loops, the slice handed to the base class) for Model, LineageModel, Schnitz, Lineage, ExperimentalLineage, VolumeCellState. Lean: generic theorem tablesOk t -> restore (dump o) = o on every persistent attribute and every derived C vector mirrors its Python twin; the obligations tablesOk_<Class> are decided by kernel evaluation against what the source says now; LineageModel layout (22 own fields then the Model tuple); restore_binary_term rebuilds the term list in order. Tie/oracle: pickle / deepcopy / copies of copies of models over every propensity, expression node, delay and rule type, initialised or not, after simulations and edits: dictionaries, matrices, propensities in four modes, delay draws, seeded simulations, independence; lineage models over rules/events/splitters; pickled lineages keep data and mutual links; cell states.",
        note=NOTE_COMMON + "translator is regex-based (harness/extract/pickle_tables.py), cross-checked against __getstate__() lengths at run time; CPython pickle/deepcopy and Cython auto-pickle (used by Term, Propensity, Delay, Rule classes) are trusted; transient allow-list: Model.txt_dict, VolumeCellState.volume_object; shallow copy.copy shares arrays and is not claimed.",
        technique="Lean 4 proof over a model regenerated by a translator (decide +kernel on the extracted tables + generic round-trip theorem) + copy/pickle oracle", ref="DESIGN.md §4 C17"),
}
PENDING = {}
def main():
    props = [json.loads(l) for l in open(os.path.join(HERE, "properties.jsonl"))]
    checks, na = [], []
    for p in props:
        pid = p["id"]
        if pid in CLAIMED:
            c = CLAIMED[pid]
            checks.append({
                "property_id": pid,
                "quick_cmd": "./check %s quick" % pid,
                "thorough_cmd": "./check %s thorough" % pid,
                "evidence_file": "evidence/%s.json" % pid,
                "replay_cmd_template": "./check %s quick --replay {path}" % pid,
                "engine": "lean-proof+correspondence",
                "level_claimed": {"category": "proof", "text": c["text"], "design_ref": c["ref"]},
                "level_note": c["note"],
                "technique": c["technique"],
            })
        else:
            na.append({"property_id": pid, "reason": PENDING.get(pid, "not yet built in this round: the Lean model/theorems and correspondence check for this property are still under construction (DESIGN.md §9 build order); no claim is made")})
    hooks = subprocess.run(["git", "-C", "/repo", "log", "--format=%H %s"], capture_output=True, text=True).stdout.strip().split("\n")
    hook_commits = [l.split()[0] for l in hooks if " verif hooks" in l]
    m = {
        "version": 1,
        "setup_cmd": "PYTHONPATH=harness /venv/bin/python -c 'import extract, common; extract.regenerate_all(common.REPO, common.LEAN)' && cd lean && lake build",
        "hooks": {"guard": "BIOSCRAPE_VERIF", "enable": "hooks are compiled in always and inert unless BIOSCRAPE_VERIF=1 is in the environment (./check exports it); checks rebuild with `cd /repo && /venv/bin/python setup.py build_ext --inplace`",
                  "baseline_off_cmd": "cd /repo && /venv/bin/python setup.py build_ext --inplace -j 8 >/dev/null 2>&1; cd /repo && env -u BIOSCRAPE_VERIF /venv/bin/python -m pytest -ra -q -p no:cacheprovider --timeout=900 --continue-on-collection-errors",
                  "source_commits": hook_commits, "add_only": True},
        "engines": [{"name": "lean-proof+correspondence", "path": "check", "serves_properties": sorted(CLAIMED),
                     "kind_free_text": "Lean 4 theorems about an executable model (lean/), tied to /repo by a line-protocol correspondence harness (harness/) and a per-property oracle used as failing-input search"}],
        "checks": checks,
        "not_applicable": na,
        "notes": "All checks: ./check <Cxx> <quick|thorough>; exit 0 held / 1 violation / 2 infrastructure. See DESIGN.md.",
    }
    json.dump(m, open(os.path.join(HERE, "MANIFEST.json"), "w"), indent=1)
if __name__ == "__main__":
    main()
