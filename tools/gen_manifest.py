#!/usr/bin/env python3
"""Writes MANIFEST.json from the table below (kept in one place so it stays valid)."""
import json, os, subprocess
HERE = os.path.dirname(os.path.dirname(os.path.abspath(__file__)))
NOTE_COMMON = ("Trusted: Lean 4.33 kernel (+leanchecker in the thorough tier), axioms propext/Classical.choice/Quot.sound only; "
               "hand-written model tied to the code by differential execution (generator-bounded); Float-vs-real gap; ")
CLAIMED = {
    "C01": dict(
        text="Lean theorems (any reactant list, any ordered field with lawful pow): createMassAction det/stoch/vol/svol = documented closed forms, falling-factorial facts, Hill family forms, plain/safe interface; model = executable Lean transcription of the propensity classes, run bit-for-bit against the rebuilt implementation at the bare object, plain and safe interfaces (exhaustive over ordered reactant lists of length 0..4 on 3 species).",
        note=NOTE_COMMON + "pow accuracy / overflow outside the proof; Hill values compared within 2 ulps (real pow since the cpow repair).",
        technique="Lean 4 proof + bit-exact model/implementation correspondence", ref="DESIGN.md §4 C01"),
    "C03": dict(
        text="Lean theorems: update dictionary = products - reactants with multiplicity (any lists, any species order), immediate and delayed matrix entries, cancellation, species index never holds a name twice, compressed derivative row = dense (S+S_d) x rate, initialisation fails iff a parameter is unset; executable model run against Model.py_get_update_array / delay array / species order / py_calculate_deterministic_derivative (bitwise for mass action) over random reaction lists and all 24 declaration orders.",
        note=NOTE_COMMON + "parameter indexing and general-rate term trees are read off the real object in this job (their construction is covered by C02/C08).",
        technique="Lean 4 proof + model/implementation correspondence", ref="DESIGN.md §4 C03"),
    "C20": dict(
        text="Lean theorems (any ordered floor field, histories of any length): insertion slot = clamp(round-half-up offset) (nearest / earliest / last), add touches exactly one cell, advance shifts and vacates, and queue_exactly_once: delivered + pending = added per (absolute slot, reaction) by induction over histories; partition parts sum to the original for every random stream. Executable model compared with the real ArrayDelayQueue on exhaustive short histories and random histories up to length 200 (Float and Rat), including twister-exact binomial partitions.",
        note=NOTE_COMMON + "aliasing (copy independence) cannot be expressed in the pure model and is covered by the correspondence histories only; C-cast truncation is the class law LawfulTrunc.",
        technique="Lean 4 proof (invariant over histories) + exhaustive/random correspondence", ref="DESIGN.md §4 C20"),
    "C05": dict(
        text="Lean theorems: for every uniform stream (hence every seed), network, grid and fuel the SSA loop (with its reaction_fired / rule_step / Lambda==0 flags) equals the restartable jump-process specification (ssa_refines_jump); sample_discrete returns the index whose cumulative interval contains u*Lambda, zero-propensity reactions are never chosen; over R: waiting-time tail, memorylessness, choice interval of length a_j/Lambda, one-step rectangle. The law-level composition into the master equation is NOT formalised (ssa_exact_partial). Tie: the Lean loop driven by the same MT19937-64 stream reproduces every reported row of SSASimulator bit for bit; G-test against expm(Qt) as statistical support and failing-input search.",
        note=NOTE_COMMON + "partial: CTMC composition of one-step kernels is textbook, not in Mathlib; twister equidistribution assumed; u=0 (2^-53) excluded.",
        technique="Lean 4 proof (refinement to a jump-process spec + interval-measure lemmas) + bit-exact trajectory correspondence", ref="DESIGN.md §4 C05"),
    "C06": dict(
        text="Lean theorems (every stream, unbounded steps): without rules the SSA loop moves the state only by whole net stoichiometric columns, so the reported rows form a chain of non-negative integer combinations (ssa_run_lattice, via the C05 refinement); integrality and every linear conservation law follow (integrality, conservation); sample_discrete never indexes past the last reaction; a zero-propensity state persists (absorbing_step); ssa_run_nonneg: on a plain mass-action network without rules whose reactions remove no more copies than they list as reactants, every reported row is a vector of natural numbers for every stream of uniforms in (0,1] (a reaction is chosen only with positive propensity, and a positive falling-factorial propensity means every reactant is present in its multiplicity); in safe mode a positive propensity implies every reactant, catalysts included, is present in its required number (safe_full_complement). Tie: plain/safe SSA, volume and delay loops reproduced bit for bit; the invariants are also monitored on every implementation row (exact MILP lattice membership, null-space conservation, non-negativity, absorption, counting-species test of safe firings).",
        note=NOTE_COMMON + "lattice and non-negativity theorems are proved for the SSA loop (non-negativity is also proved for the volume loop in C11; for the delay loops it is monitored on the implementation - delayed reactants may legitimately go negative; delay accounting is C10).",
        technique="Lean 4 proof (loop invariants by induction over runs) + bit-exact correspondence + invariant monitor", ref="DESIGN.md §4 C06"),
    "C10": dict(
        text="Lean theorems (every stream): one iteration of the delay loop, split into its scheduling and acting halves, delivers the earliest queue slot (amounts x delayed stoichiometry) and advances the queue when the queue time comes first; a firing with positive delay applies the immediate column and makes exactly one insertion at firing time + delay; a non-positive delay applies both parts at once; the loop performs no other queue operation (so C20's queue_exactly_once covers the loop's insertions); delay_run_accounting / delay_run_conservation: for whole runs of the delay loop without rules, under every linear functional w the value of reported state + everything still queued equals the initial value plus w.(U_j+D_j) summed over the reactions that fired - nothing lost, nothing applied twice; SSA applies both parts; fixed/none/Gaussian delay samplers as exact functions of the stream. Tie: rows and final queue of DelaySSASimulator/DelayVolumeSSASimulator reproduced bit for bit; accounting oracle with counting species; sampler draws bit for bit.",
        note=NOTE_COMMON + "partial: sampler laws (Box-Muller, Marsaglia-Tsang) and the zero-delay law equality are supported statistically only; the accounting theorem is for the delay loop without rules (the delay+volume loop by correspondence and the counting-species oracle).",
        technique="Lean 4 proof (step theorems over the verified queue) + bit-exact correspondence + accounting oracle", ref="DESIGN.md §4 C10"),
    "C11": dict(
        text="Lean theorems (every stream): the volume loop equals a flag-free jump process whose stops are grid times and volume ticks (volume_refines_spec, whole runs); its propensities are the svol forms whose closed forms are C01's (k/V, k*V, Hill on s/V); a tick multiplies the volume by exp(g*dt) (positive, non-decreasing for g>=0, V0*exp(g dt)^n after n ticks); rows/trace/index stay aligned; stop is raised only by a dividing tick and equals the divided flag; volume_run_nonneg: on a plain mass-action network every reported row of the volume simulator consists of natural numbers and the volume stays positive for every stream (every volume model of the library keeps a positive volume positive). Tie: rows, volume trace, time axis and flag reproduced bit for bit for Volume, StochasticTimeThresholdVolume (noise 0 and >0) and StateDependentVolume; growth/division oracle on implementation output; G-test vs volume-scaled CME.",
        note=NOTE_COMMON + "law-level statement partial as in C05.",
        technique="Lean 4 proof (refinement + growth algebra) + bit-exact correspondence + growth/division oracle", ref="DESIGN.md §4 C11"),
    "C09": dict(
        text="Lean theorems: for rule lists of any length in dependency order (explicit predicate DepOrdered, satisfiable: example) every rule holds after the rule pass (applyAll_holds / rules_hold_after_pass), and 'holds' is the assignment equation for species and parameter targets; rows written by the SSA and volume loops are the post-rule state from which the propensities are computed; fires_iff characterises the three schedules; a rule scheduled for T is silent at every other instant and runs at T; dt rules need a rule step and the SSA loop raises it only on arrival at a grid time; ODE rule = target + rate*dt; additive rule = sum of sources; lineage loop: the rule step is raised exactly when the clock arrives at a time step (cell_ruleStep_iff_tick), rules run with the grid step as dt at the cell's volume and time, rows are written from the rule-updated state. Tie: Rule.py_execute_rule unit correspondence (all rule types/frequencies, volume and plain), trajectories with rules reproduced bit for bit in SSA/safe/volume/delay; oracle on implementation rows incl. deterministic and lineage single-cell runs (registration count, counter, schedule, ODE step).",
        note=NOTE_COMMON + "the lineage loop is tied by the row oracle here (and by the loop model of C19 when claimed); deterministic mode claims repeated rules only.",
        technique="Lean 4 proof (dependency-order induction + schedule lemmas) + bit-exact correspondence + row oracle", ref="DESIGN.md §4 C09"),
    "C07": dict(
        text="Lean theorems by kernel evaluation over the whole option lattice (128 combinations, lifted by lattice_complete): every combination yields a result, never an internal error or an abstract simulator (entry_total, entry_no_abstract_simulator); neither/both of Model and Interface is an explicit option error; every returnable result class stores the requested time points and the rows (entry_time_axis, result_rows_stored) - obligations regenerated from the constructors' source by a translator on every run; volume column iff a volume is in play; column list = species in index order ++ time ++ volume; dispatch table. Tie: the lattice x 5 models x 3 grids is enumerated completely on the real py_simulate_model and compared with the model outcome and with the property (rows, time axis, columns, first row).",
        note=NOTE_COMMON + "the dispatch is a hand model (exhaustively compared); result constructors are translated by regex (harness/extract/result_fields.py); pandas trusted; with a pre-built interface the data frame columns are positions.",
        technique="Lean 4 proof (decide +kernel over the complete finite lattice; translator-regenerated obligations) + exhaustive correspondence", ref="DESIGN.md §4 C07"),
    "C08": dict(
        text="Lean theorems (all histories / all streams): every edit clears `initialized`, only initialize sets it and it fails iff some parameter has no value; species and parameter indices are append-only (indices handed out earlier stay valid); set_parameter changes that parameter alone; a rule pass, one SSA iteration and a whole run write no parameter that is not the destination of a parameter-assigning rule (jump_run_params_frame), the loop works on a copy of the initial condition; mt_seed overwrites all 312 words and the index. Tie and end-to-end decision: random edit histories on the real Model vs the Lean state machine after every operation, then vs a freshly built model of the same definition by seeded simulation in five modes (bitwise by species name), repeatability, dictionaries before/after, interface reuse scenarios.",
        note=NOTE_COMMON + "the statement 'same definition and seed => same output' itself is decided by the correspondence/oracle run (histories bounded by the generator), the Lean part proves the mechanisms it rests on; `initialized` is not Python-visible and is observed through interface refusal.",
        technique="Lean 4 proof (state-machine invariants, parameter frame by induction over runs) + history correspondence", ref="DESIGN.md §4 C08"),
    "C16": dict(
        text="Lean theorems over R against Mathlib's own densities: the model of each prior returns log(gaussianPDFReal), log(exponentialPDFReal), log(gammaPDFReal) (shape, rate), log(betaPDFReal), log(1/(ub-lb)), the log-uniform and log-normal densities written out, inside the support, and rejects (none = -inf posterior) outside it; the 'positive' flag rejects any vector with a negative entry; the log-prior of an accepted vector is the sum; the dispatch chain prior type -> method is regenerated from pid_interfaces.py by a translator and checked by decide. Tie: PIDInterface.check_prior vs the same Lean definitions run in Float (1e-12) over the seven families, boundary-near and out-of-support values, vectors of 1..4 parameters, flags; oracle scipy.stats logpdf; posterior at out-of-support theta through InferenceSetup.cost_function.",
        note=NOTE_COMMON + "scipy.special.gamma/beta values are inputs of the model (taken to compute Gamma and B); numpy exp/log vs libm within 1e-12; underflow of far-tail densities excluded.",
        technique="Lean 4 proof (identities against Mathlib pdfs; translator-regenerated dispatch table) + correspondence", ref="DESIGN.md §4 C16"),
    "C15": dict(
        text="Lean theorems: data_aligned (entry [t][m] of the array handed to the likelihood is row t of the column named by measurement m, any M, T, column order; with the reshape-only variant refuted at M=T=2); the likelihood is -(sum over trajectories, measurements, time points of |data - sim_n|^p)^(1/p) with sim_n run from trajectory n's own initial state, time points and (evaluation parameters overridden by its own condition only) (logLikelihood_formula); symmetric in the trajectories and in the (species, column) pairs (List.Perm); cost_history_free: when the defaults cover every parameter the working parameter vector, hence the cost, is independent of what earlier evaluations left in the shared array; -inf outside the prior's support. Tie: LL_data compared exactly, cost compared with the Lean model fed with the implementation's own simulations of the parameter vectors the model requests; oracle = the stated formula with fresh simulations, history and permutation checks on the real cost_function.",
        note=NOTE_COMMON + "LSODA is a parameter of the model (C04); pandas column lookup and numpy transpose/reshape are modelled by index functions; stochastic cost only through the shared code paths.",
        technique="Lean 4 proof (index arithmetic, permutation invariance, history-freeness) + correspondence + formula oracle", ref="DESIGN.md §4 C15"),
    "C18": dict(
        text="Lean theorems over any linearly ordered field: the fourth-order central stencil is exact on quartics (derivative c1), central on quadratics, forward/backward on linear functions, with their classical leading error terms on the next monomial (-4h^4 = h^4/30*5!, h^2, +-h) and linearity (so exactness extends to all polynomials of the scheme's order); J[i][j] differentiates equation i in state j, Z[i] equation i in the named parameter; hence exact Jacobians for rate equations that are quartic per coordinate (all mass action of order <= 4); the parameter writes of compute_Zj end with the original values for all four schemes and any number of equations. Tie: py_get_jacobian / py_get_sensitivity_to_parameter vs the Lean stencils on the Lean derivative (2e-10) and vs sympy-differentiated rate equations within the scheme's bound; parameter dictionary before/after.",
        note=NOTE_COMMON + "partial: general C^k error bounds via Taylor's theorem are not formalised (the oracle evaluates the derivative bound numerically); np.round to 10 decimals is not modelled.",
        technique="Lean 4 proof (stencil algebra by field_simp/ring; write-trace induction) + correspondence + symbolic-derivative oracle", ref="DESIGN.md §4 C18"),
    "C04": dict(
        text="Lean theorems: the right-hand side handed to the integrator is, without rules, exactly (S + S_d) x rate(x, t) per species (rhsGlobal_eq, via C03's derivative_spec: delayed stoichiometry counted as if the delay were zero) and with rules the derivative of the rule-updated state; the mxstep retry ladder (500, 5000, 50000, 500000); a failed integration is never reported as numbers; the result is the first successful attempt with rules re-applied to the rows; and CONDITIONALLY on the integrator's accuracy contract (SolverAccurate) every reported row is within tolerance of the exact solution (det_accurate - the partial form of the property). Tie: rhs_global(x, t) vs the Lean rhsGlobal (bitwise for mass action); end-to-end validation of the assumed contract against expm closed forms (linear) and DOP853 at 1e-12 (non-linear, time-dependent), uniform and irregular grids, first row.",
        note=NOTE_COMMON + "partial: LSODA's accuracy and step control are assumed, not proved; they are sampled by the end-to-end validation (tolerance 2e-5(1+|x|)).",
        technique="Lean 4 proof (RHS = rate equations; conditional accuracy) + RHS correspondence + reference-solution oracle", ref="DESIGN.md §4 C04"),
    "C17": dict(
        text="The pickling code is a set of hand-kept tables, so the model is REGENERATED from the source on every run by a translator (declared cdef attributes, __getstate__ tuple positions incl. inherited prefix/suffix, __setstate__ index assignments, C-vector clear/rebuild loops, the slice handed to the base class) for Model, LineageModel, Schnitz, Lineage, ExperimentalLineage, VolumeCellState. Lean: generic theorem tablesOk t -> restore (dump o) = o on every persistent attribute and every derived C vector mirrors its Python twin; the obligations tablesOk_<Class> are decided by kernel evaluation against what the source says now; LineageModel layout (22 own fields then the Model tuple); restore_binary_term rebuilds the term list in order. Tie/oracle: pickle / deepcopy / copies of copies of models over every propensity, expression node, delay and rule type, initialised or not, after simulations and edits: dictionaries, matrices, propensities in four modes, delay draws, seeded simulations, independence; lineage models over rules/events/splitters; pickled lineages keep data and mutual links; cell states.",
        note=NOTE_COMMON + "translator is regex-based (harness/extract/pickle_tables.py), cross-checked against __getstate__() lengths at run time; CPython pickle/deepcopy and Cython auto-pickle (used by Term, Propensity, Delay, Rule classes) are trusted; transient allow-list: Model.txt_dict, VolumeCellState.volume_object; shallow copy.copy shares arrays and is not claimed.",
        technique="Lean 4 proof over a model regenerated by a translator (decide +kernel on the extracted tables + generic round-trip theorem) + copy/pickle oracle", ref="DESIGN.md §4 C17"),
    "C19": dict(
        text="Lean theorems (every stream, ordered floor field): binom_rnd_f returns the number of the next n uniforms below p and never more than n (binomTrials_count / _le); one generic fold theorem (fold_split, two_phase) gives for PerfectBinomialVolumeSplitter, GeneralVolumeSplitter and LineageVolumeSplitter: perfect and binomial species are conserved (d + e = mother), a perfect share is a whole number within one molecule of p*x (strictly, for the lineage splitter), a binomial share is a natural number <= int(x+0.5), every other species is copied to both daughters, daughter volumes are p*V and (1-p)*V and sum to V (two copies when the volume is duplicated) and are positive for noise in range; cell_reported_positive: SimulateSingleCell (transcribed loop over any rules/events) reports only rows it wrote, each with positive volume, time axis = initial piece of the grid, at least one row, whatever stopped the loop - refuted for the pinned tree's final push (pinned_reports_unwritten_row); lineage_consistent / simulateLineage_consistent: for every work-list run mother/daughter links are mutual, daughters are two different cells, and every daughter was simulated from one part of a partition of her mother's final state, born at her time (splitCell_birth). Tie: py_partition of the three splitter classes, py_SimulateSingleCell and py_SimulateCellLineage (every cell's time axis, rows, volume trace, flags, parent and daughter indices) reproduced bit for bit by the compiled model on the same seeds over generated lineage models (growth rules incl. noise, division/death rules, volume/division/death events, per-species modes, partition noise, rules writing parameters, closed models whose propensity reaches 0, cells dividing or dying at birth); the property evaluated on implementation output incl. the safe interface; binomial-law statistics.",
        note=NOTE_COMMON + "custom partition functions, interacting lineages, turbidostat/propagate drivers not modelled; safe lineage interface by oracle only; Binomial(n,p) as a law rests on twister equidistribution (statistical support only); option lists naming a species twice are outside the theorem's Nodup hypothesis.",
        technique="Lean 4 proof (generic partition fold, loop invariant, work-list invariant) + bit-exact correspondence + conservation/link oracle", ref="DESIGN.md §4 C19"),
    "C02": dict(
        text="Lean theorems: node semantics of the evaluation tree (sum, product, lattice max/min of a non-empty list; evaluate = volume_evaluate at volume 1); translate_sound - by mutual structural induction over the formula AST: whenever a formula is accepted, the tree built for it evaluates, for every state, parameter vector, time and volume, to the meaning of the written formula (subtraction/division/negation through the sum/product/power encodings of a symbolic tree, pow(x,-1)=1/x by the libm law); a formula without meaning in the model's environment (unknown name) is never given a tree; unknown identifiers are rejected; a name declared as written is looked up as written. Tie: (a) the real Term tree dumped from bioscrape and evaluated by the Lean Term.eval (1e-12); (b) the source string through an independent Lean recursive-descent parser, translate and eval vs the implementation (1e-9), through general propensities (plain and volume), parse_general_expression and assignment rules; malformed stream rejected by both; oracle = the generator's own tree in Python floats.",
        note=NOTE_COMMON + "sympy's parser and simplifier are external: their effect is sampled by cut (b), and formulas sympy rewrites into unsupported nodes (abs(exp(p)) -> exp(re(p))) are rejected at build time, which the property allows; names colliding with sympy constants beyond the single letters (pi, beta, gamma...) are outside the property's pool.",
        technique="Lean 4 proof (mutual structural induction: translation soundness) + two-cut correspondence + expression oracle", ref="DESIGN.md §4 C02"),
    "C12": dict(
        text="Lean theorems: annotation_roundtrip - the key/value pairs read back (split on space, then on '=') from the text written for a reaction are exactly the pairs written, for any number of pairs, under the explicit predicate ValidTokens (identifier-safe names; satisfied: example); stoich_roundtrip - writing distinct species with coefficients and expanding them on reading preserves every multiplicity, hence (C03) the immediate and delayed stoichiometric columns in every species order; rule kinds survive (C13), rate-law agreement after re-import is C01 (annotated types rebuilt from type + parameter names) and C02 (general rates). Tie/oracle: random models over every propensity type, orders 0..4, delays of each family, rules with every frequency, both exports: written twice (equal up to the model id), re-imported and compared in species, parameters, stoichiometry, propensities in four modes, delays, rules; annotation texts re-encoded/decoded by the Lean codec.",
        note=NOTE_COMMON + "libsbml's XML round trip is the identity on the abstract document by assumption, except that its formula printer drops the parentheses of a power whose base is a power (known finding: general rates of that shape change in the round trip); the end-to-end equality is decided by the oracle run, the Lean part proves the codec and stoichiometry mechanisms.",
        technique="Lean 4 proof (split/join codec induction; multiplicity preservation) + round-trip oracle", ref="DESIGN.md §4 C12"),
    "C13": dict(
        text="Lean theorems: importRules_spec - for any number and any order of rules the imported assignments are exactly the document's assignment rules (in order, as repeated assignments) and the extra reactions 0 -> variable exactly its rate rules, nothing carrying over between rules; a rate-rule reaction changes its variable by +1 x formula and nothing else; integer stoichiometries expand to that many copies; initial amount / concentration precedence; rename_eval (mutual induction): renaming a clashing local parameter to id_reactionId leaves the kinetic law's meaning in the reaction's own scope unchanged. Tie/oracle: documents generated directly with libsbml (amounts/concentrations, global and shadowing local parameters, stoichiometries 1..3, modifiers, rules in any order) imported by bioscrape and compared with an independent evaluator of the document's semantics (derivative at sampled states), plus the Lean import model.",
        note=NOTE_COMMON + "libsbml parsing and formulaToL3String -> sympy are trusted (C02) - except for a power whose base is a power, which formulaToL3String prints without parentheses: one known finding (rate-equation/left-nested-power), documents of that shape are outside the claim; FreshRenames (id_rxnId not an existing id) is a hypothesis.",
        technique="Lean 4 proof (fold characterisation; renaming by mutual induction) + document-semantics oracle", ref="DESIGN.md §4 C13"),
    "C14": dict(
        text="Lean theorems: kl_massaction_det / kl_massaction_stoch - the kinetic law written for a mass-action reaction of ANY order and multiplicity evaluates, as plain mathematics over the document's identifiers, to k*prod x_s (deterministic export) resp. k*prod x_s(x_s-1)...(x_s-m_s+1) (stochastic export), which on integer counts is C01's guarded falling factorial (fall_unguarded_nat); doc_stoich - written coefficients = multiplicities; general rates are written verbatim. The FULL statement is false for the Hill family on this tree (kl_hill_undefined_identifier, kl_hill_wrong_constant proved): recorded as known findings (the frozen SBML test files pin the text), and kl_det_partial states exactly what is proved. Tie/oracle: every written kinetic law read back with libsbml and evaluated by an independent AST evaluator vs the model's rates (guarded hook), identifiers defined, stoichiometries; the Lean construction evaluated in the same environments.",
        note=NOTE_COMMON + "partial: Hill-family kinetic laws are known findings (6 entries in known_findings.jsonl), not proved; libsbml formula parse/print trusted.",
        technique="Lean 4 proof (evaluation of the constructed law AST; negation proved at witnesses for the Hill family) + kinetic-law oracle", ref="DESIGN.md §4 C14"),
}
PENDING = {}
# what the fourth round of seeded changes added to each check (appended to the text above)
ROUND4 = {
    "C01": " Also: Hill / general correspondences now within 2 ulps (real pow after the cpow repair); the lineage module's plain and safe interface tested statistically on reactions with repeated reactants.",
    "C02": " Also: growth laws that mention t, traced through the volume and the delay+volume simulator against V(t_n) = V(t_{n-1}) exp(g(t_n) dt).",
    "C03": " Also: the interface is prepared again between evaluations (as every deterministic simulation handed an interface does).",
    "C05": " Also: master-equation tests through the volume simulator with ticks coarser than the requested grid, and on a reaction with a delayed part through the queue-less simulators.",
    "C06": " Also: the feasibility oracle's stoichiometries come from the reaction definition; one model object is handed to the volume, plain, delay+volume and delay simulators in turn.",
    "C07": " Also: an assignment rule of frequency dt in the rules model; expected first rows written out by hand.",
    "C08": " Also: histories that add reactions with delayed parts to models already in use (createDelayed in the Lean state machine, createDelayed_clears); the statements of Model._create_vectors and LineageModel._create_vectors are REGENERATED from the source as a straight-line program (harness/extract/create_vectors.py): obligations programOk_Model / programOk_LineageModel (every container that is filled is wiped first, every statement recognised), theorem rebuilt_independent / program_rebuilds (such a container ends up with the items of the definition whatever it held before); lineage models built one rule / event at a time are part of the failing-input search.",
    "C09": " Also: delay+volume and safe volume simulators in the bit-exact cut and the row oracle.",
    "C10": " Also: a delayed reaction added step by step to a model already initialised or simulated must deliver after its own delay.",
    "C11": " Also: state-dependent volumes through the delay+volume loop, growth laws with t, ticks coarser than the grid, and cells initialised at t0 > 0 with division noise (7-sigma division-time oracle).",
    "C12": " Also: short lower-case species identifiers (m, vol, u, lum) and general rates with log, -A^2, Min/Max/Abs, Heaviside.",
    "C13": " Also: short lower-case species identifiers (m, vol, u, lum, met); a species of the document missing from the import is reported.",
    "C14": " Also: general rates with log, -A^2, Min/Max/Abs and Heaviside; docEval in the Lean model (kl_general_stepfree, kl_general_step_undefined); calls of undefined functions count as undefined identifiers.",
    "C15": " Also: models whose own rule moves a parameter during a run (composition of the multi-trajectory cost from single-trajectory costs).",
    "C16": " Also: every case re-evaluated on an interface kept alive through the run whose prior is revised in between.",
    "C17": " Also: lineage cell states pickled through __reduce__: table regenerated from the source, obligation reduceOk_LineageVolumeCellState, theorem reduce_roundtrip; all flag combinations (divided / dead) in the harness.",
    "C18": " Also: states nearer to zero than the stencil reach and signed net rates (kf*A - kr*B).",
    "C19": " Also: a division uses the splitter of the rule or event that caused it (models where only one can fire); lineage models with a dimerisation; safe lineage runs bit-exact against the plain model.",
}


ROUND5 = {
    "C01": " Round 5: reactions with equal parameter dictionaries share one dict object; mixed models share k0.",
    "C02": " Round 5: constant sub-expressions that fold to named constants (exp(1)); non-real constants are rejected.",
    "C03": " Round 5: signed net rates (k0*A - K0*B).",
    "C04": " Round 5: the DOP853 reference integrates rate equations written out from the reaction definitions (independent of the implementation); fixed cases (A + B + A, signed net rate); non-adjacent repeated reactants in the network templates.",
    "C05": " Round 5: non-contiguous (strided) time grids in the bit-exact cut and the CME tests.",
    "C06": " Round 5: dividing cells through the volume and delay+volume simulators.",
    "C07": " Round 5: dividing volume objects (x delay x safe x output form) and strided grids.",
    "C08": " Round 5: lineage models extended without explicit initialisation; parameter-free lineage rules.",
    "C09": " Round 5: delay+volume rule-step theorems (delayVolume_ruleStep_tick, delayVolume_no_ruleStep, delayVolume_rows_see_ruled_state) over the loop split into dvDecide / dvApply; rules with explicit frequency listed first.",
    "C10": " Round 5: delay+volume step theorems (dv_queue_branch, dv_fire_positive, dv_fire_nonpositive, delayVolumeIter_queue_ops); continued runs with the returned queue.",
    "C11": " Round 5: dv_tick_volume, dv_other_volume, delayVolume_tick_time; grids starting later than the cell.",
    "C12": " Round 5: rules compared by effect (not text); rule formulas with -A^2, log, exp(-B^2/8).",
    "C13": " Round 5: an equal-valued local parameter shadowing a rule-driven global.",
    "C14": " Round 5: parameter names that contain an underscore followed by another parameter's name.",
    "C15": " Round 5: theorem logLikelihood_composes (over the reals).",
    "C16": " Round 5: value and prior dictionaries in different orders.",
    "C17": " Round 5: a cell at time 0 that was born earlier.",
    "C18": " Round 5: non-contiguous state arrays.",
    "C19": " Round 5: splitter options with a default mode and explicit / omitted species; parameter-free lineage rules added to a model in use.",
}


ROUND6 = {
    "C02": " Round 6: every expression also in a model declaring the same names in the opposite order.",
    "C03": " Round 6: matrices of a pickled copy.",
    "C05": " Round 6: a slow process (total propensity 3e-9) over a long horizon.",
    "C07": " Round 6: a parameter-target rule that reads the volume.",
    "C08": " Round 6: sampler history (gamma delays with one shape and two scales).",
    "C09": " Round 6: an additive rule with its target among its sources.",
    "C10": " Round 6: a carried-over queue split between two daughters; gamma sampler with one shape and two scales.",
    "C11": " Round 6: coarse ticks with a growing volume and sparse events; whole-run theorems volume_run_recorded / delayVolume_run_recorded.",
    "C12": " Round 6: negative initial values.",
    "C13": " Round 6: species carrying both initial attributes (tiny amounts).",
    "C14": " Round 6: two different species each taken twice.",
    "C16": " Round 6: 'positive' flag under log-space sampling, both inference kinds; theorem checkPrior_dict_order.",
    "C17": " Round 6: copies of models extended with a delayed reaction and used again.",
    "C18": " Round 6: an analysis object reused while the model's parameters change.",
    "C19": " Round 6: uneven lineage grids; theorems splitCell_rule_splitter / splitCell_event_splitter / cellEventStep_division_index.",
    "C20": " Round 6: crowded cells in partitions; theorem setCurrentTime_keeps_contents.",
    "C01": " Round 6: theorems massAction_det_perm / massAction_stoch_perm.",
    "C04": " Round 6: shared rate constants in the generated networks.",
}


ROUND8 = {
    "C01": " Rounds 7-8: delayed products in mixed models; the propensity probe's buffer is prefilled with NaN (hook 53cd504).",
    "C02": " Round 8: every operator in every position with a volume-sensitive argument; one-shot (start / time) rules on the volume path.",
    "C03": " Round 7: the interface requested three times on a model with a valueless parameter.",
    "C04": " Round 8: a short input pulse simulated with the hmax keyword against an independent DOP853 reference; theorems rhsGlobal_conserves / rhsGlobal_untouched / rhsGlobal_rest, and every conserved combination of the specification's stoichiometry checked on the output rows (relative drift <= 1e-9).",
    "C05": " Round 8: master-equation comparison also through the safe interface with a volume.",
    "C06": " Round 7: a chain sharing one rate constant through three simulators.",
    "C07": " Round 8: the same system built in one go and in steps (reaction added later, also after a run), non-idempotent rule chain; theorems ssa_run_complete / delay_run_complete (one row per requested time point for every network, seed and grid, by induction over the loop) and ssa_first_rows.",
    "C08": " Round 8: a pre-built interface used across runs on refined grids.",
    "C10": " Round 8: the entry point on grids whose spacing differs from the interface's dt.",
    "C13": " Round 7: shadowed globals with value 0.",
    "C14": " Round 7: zero-valued constants; every parameter of the document carries a value.",
    "C15": " Round 8: measurements replaced through the setters between cost evaluations (defect repaired, 39eaba5).",
    "C16": " Round 8: integer-typed prior specifications.",
    "C17": " Round 7: tracked lineages whose mother kept one daughter.",
    "C18": " Round 8: the module-level functions across parameter changes of one model; theorem stencil_tendsto (over the reals every scheme's quotient tends to the analytic derivative of any differentiable rate restriction as the step tends to 0).",
    "C19": " Round 7: one lineage simulator object serves all runs.",
    "C20": " Round 8: queues built on transposed and sliced backing arrays.",
}


ROUND9 = {
    "C03": " Round 9: the safe interface's derivative wherever its guard is idle.",
    "C06": " Round 9: exhaustion family (every order of repeated reactants, odd counts, three simulators).",
    "C12": " Round 9: the delay family 'none' with a delayed part, next to the three real families; theorems split_join / delay_list_roundtrip (comma-separated delayed reactants / products survive the annotation) and the delay annotations of every written reaction decoded by the Lean codec.",
    "C13": " Round 9: model of the text between document and importer on the power fragment (Model/PowText.lean: libsbml's printer, the right-associative reader) with theorems read_print_readBack (what is read back, for every tree), readBack_eq_iff (as written iff no power has a power as its base), pow_of_pow_misread (the known finding for every instance); printer against libsbml.formulaToL3String and reader against the imported rate on every tree shape up to three powers.",
    "C14": " Round 9: delayed reactions of every family in both exports.",
    "C17": " Round 9: lineages linked in one direction; a single daughter cell copied on its own.",
    "C19": " Round 9: two division rules that hold in the same step.",
}


ROUND10 = {
    "C01": " Round 10: autocatalytic family (reactions that return more copies of a reactant than they take) at low counts.",
    "C02": " Round 10: a species declared with a leading underscore next to a name without it.",
    "C03": " Round 10: model of the safe interface's derivative (derivativeSafe) with theorems derivRowSafe_idle / _pos, bit-exact including refusals.",
    "C04": " Round 10: rtol / atol keywords on small concentrations; requested times thousands of periods apart.",
    "C05": " Round 10: enzyme mechanism under the names E, S, ES, P through the safe interface.",
    "C07": " Round 10: deterministic runs whose time points lie hundreds of thousands of solver steps apart.",
    "C08": " Round 10: an interface kept while the model is initialised again and its values change.",
    "C10": " Round 10: delay queue finer than the volume step in the delay+volume simulator.",
    "C11": " Round 10: division reported at the last grid time (known finding for the delay+volume simulator - its mechanism proved as dv_tie_is_queue_step / dv_tie_at_last_time_ends_undivided - asserted for the volume simulator).",
    "C15": " Round 10: two estimated parameters with the prior declared in both orders.",
    "C16": " Round 10: check_prior on values for every interface class with and without log_space_parameters.",
    "C18": " Round 10: explicitly time-dependent rates at t = 0 and later, every scheme, module functions and object.",
    "C20": " Round 10: queues with as many or more reactions than slots; requested times up to 1e15 grid steps away (defect repaired, dcd1802).",
}


ROUND11 = {
    "C03": " Round 11: matrices and derivative re-read after every kind of simulation.",
    "C06": " Round 11: rules that own parameters, six simulator settings.",
    "C12": " Round 11: identifiers containing the clock's name.",
    "C13": " Round 11: reactions flagged reversible, three ways of reading. Round 13: reactions that differ only in their ids.",
    "C17": " Round 11: copies of models whose stored values a session left behind.",
    "C19": " Round 11: a division event with another splitter added after a run.",
}


ROUND12 = {
    "C01": " Round 12: an interface given a parameter vector of its own.",
    "C02": " Round 12: lineage event rates written in `volume`, plain and safe lineage interface.",
    "C04": " Round 12: tolerances tighter than the default on a grid that needs the retry ladder.",
    "C05": " Round 12: interleaved repeated reactants against a generator built from the specification's closed forms.",
    "C08": " Round 12: the same definition built at once and step by step (species in another order).",
    "C10": " Round 12: accounting against the specification's matrices; delayed species shared with the immediate part. Round 14: the delay+volume simulator idle with pending deliveries on a fine reporting grid.",
    "C15": " Round 12: time grids A, B, A in three trajectory orders. Round 14: end points of a uniform prior.",
    "C18": " Round 12: method=None means the default scheme.",
}


def main():
    props = [json.loads(l) for l in open(os.path.join(HERE, "properties.jsonl"))]
    checks, na = [], []
    for p in props:
        pid = p["id"]
        if pid in CLAIMED:
            c = dict(CLAIMED[pid])
            c["text"] = c["text"] + ROUND4.get(pid, "") + ROUND5.get(pid, "") + ROUND6.get(pid, "") + ROUND8.get(pid, "") + ROUND9.get(pid, "") + ROUND10.get(pid, "") + ROUND11.get(pid, "") + ROUND12.get(pid, "")
            checks.append({
                "property_id": pid,
                "quick_cmd": "./check %s quick" % pid,
                "thorough_cmd": "./check %s thorough" % pid,
                "evidence_file": "evidence/%s.json" % pid,
                "replay_cmd_template": "./check %s quick --replay {path}" % pid,
                "engine": "lean-proof+correspondence",
                "level_claimed": {"category": "proof", "text": c["text"], "design_ref": c["ref"]},
                "level_note": c["note"],
                "technique": c["technique"],
            })
        else:
            na.append({"property_id": pid, "reason": PENDING.get(pid, "not yet built in this round: the Lean model/theorems and correspondence check for this property are still under construction (DESIGN.md §9 build order); no claim is made")})
    hooks = subprocess.run(["git", "-C", "/repo", "log", "--format=%H %s"], capture_output=True, text=True).stdout.strip().split("\n")
    hook_commits = [l.split()[0] for l in hooks if " verif hooks" in l]
    m = {
        "version": 1,
        "setup_cmd": "PYTHONPATH=harness /venv/bin/python -c 'import extract, common; extract.regenerate_all(common.REPO, common.LEAN)' && cd lean && lake build",
        "hooks": {"guard": "BIOSCRAPE_VERIF", "enable": "hooks are compiled in always and inert unless BIOSCRAPE_VERIF=1 is in the environment (./check exports it); checks rebuild with `cd /repo && /venv/bin/python setup.py build_ext --inplace`",
                  "baseline_off_cmd": "cd /repo && /venv/bin/python setup.py build_ext --inplace -j 8 >/dev/null 2>&1; cd /repo && env -u BIOSCRAPE_VERIF /venv/bin/python -m pytest -ra -q -p no:cacheprovider --timeout=900 --continue-on-collection-errors",
                  "source_commits": hook_commits, "add_only": True},
        "engines": [{"name": "lean-proof+correspondence", "path": "check", "serves_properties": sorted(CLAIMED),
                     "kind_free_text": "Lean 4 theorems about an executable model (lean/), tied to /repo by a line-protocol correspondence harness (harness/) and a per-property oracle used as failing-input search"}],
        "checks": checks,
        "not_applicable": na,
        "notes": "All checks: ./check <Cxx> <quick|thorough>; exit 0 held / 1 violation / 2 infrastructure. See DESIGN.md.",
    }
    json.dump(m, open(os.path.join(HERE, "MANIFEST.json"), "w"), indent=1)
if __name__ == "__main__":
    main()
