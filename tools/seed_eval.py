#!/usr/bin/env python3
"""Evaluate one seeded change: tools/seed_eval.py <seed-id> <worktree> <check-id> [<check-id> ...]

Stores the change under seeded/<seed-id>/ (patch.diff, demonstration, meta.json), confirms the demonstration and the
repository's own tests in the scratch worktree, then applies the patch to /repo, runs the named checks (quick tier),
records what each printed, and restores /repo.  Nothing here is part of a registered check."""
import json, os, shutil, subprocess, sys, time

VERIF = os.path.dirname(os.path.dirname(os.path.abspath(__file__)))


def sh(cmd, cwd=None, env=None, timeout=3600):
    p = subprocess.run(cmd, shell=True, cwd=cwd, env=env, capture_output=True, text=True, timeout=timeout)
    return p.returncode, (p.stdout + p.stderr)


def main():
    sid, wt = sys.argv[1], sys.argv[2]
    checks = sys.argv[3:]
    out = os.path.join(VERIF, "seeded", sid)
    os.makedirs(out, exist_ok=True)
    rc, diff = sh("git -C %s diff" % wt)
    if not diff.strip():
        print("no diff in", wt)
        return 2
    open(os.path.join(out, "patch.diff"), "w").write(diff)
    demo = os.path.join(wt, "SEEDED_DEMO.py")
    meta = {"seed": sid, "files": sorted(set(l[6:] for l in diff.splitlines() if l.startswith("+++ b/"))), "checks": {}}
    env = dict(os.environ, PYTHONPATH=wt)
    env.pop("BIOSCRAPE_VERIF", None)
    if os.path.exists(demo):
        shutil.copy(demo, os.path.join(out, "demonstration.py"))
        rc, o = sh("/venv/bin/python %s" % demo, cwd="/tmp", env=env, timeout=1800)
        meta["demonstration_exit_on_mutated_worktree"] = rc
        open(os.path.join(out, "demonstration.out"), "w").write(o[-6000:])
        print("demo exit on mutated worktree:", rc)
    rc, o = sh("/venv/bin/python -m pytest -q -p no:cacheprovider --timeout=900 tests 2>&1 | tail -3", cwd=wt, env=env, timeout=1800)
    meta["repo_tests_on_mutated_worktree"] = o.strip().splitlines()[-1] if o.strip() else "?"
    print("repo tests on mutated worktree:", meta["repo_tests_on_mutated_worktree"])
    scratch = os.environ.get("SEED_EVAL_SCRATCH")
    if scratch:
        # side-by-side mode: the checks run in a scratch copy of this directory against the (already mutated and built)
        # worktree itself, so /repo and this directory's build output and evidence stay untouched
        sh("rsync -a --delete --exclude .git --exclude .lake --exclude replays --exclude __pycache__ %s/ %s/" % (VERIF, scratch))
        if not os.path.isdir(os.path.join(scratch, "lean", ".lake")):
            sh("cp -a %s/lean/.lake %s/lean/.lake" % (VERIF, scratch))
        for c in checks:
            t0 = time.time()
            rc, o = sh("./check %s quick" % c, cwd=scratch, env=dict(os.environ, BIOSCRAPE_REPO=wt), timeout=3000)
            lines = [l for l in o.splitlines() if l.startswith(("VIOLATION", "# ", "OK ", "KNOWN-FINDING", "INFRA"))]
            meta["checks"][c] = {"exit": rc, "wall_s": round(time.time() - t0, 1), "lines": lines[:8]}
            print(c, "exit", rc, "|", " | ".join(lines[:4])[:600])
        json.dump(meta, open(os.path.join(out, "meta.json"), "w"), indent=1)
        return 0
    rc, o = sh("git -C /repo status --porcelain --untracked-files=no")
    if o.strip():
        print("/repo has tracked modifications; refusing", o)
        return 2
    rc, o = sh("git -C /repo apply %s" % os.path.join(out, "patch.diff"))
    if rc != 0:
        print("patch does not apply:", o)
        return 2
    try:
        for c in checks:
            t0 = time.time()
            rc, o = sh("./check %s quick" % c, cwd=VERIF, timeout=3000)
            lines = [l for l in o.splitlines() if l.startswith(("VIOLATION", "# ", "OK ", "KNOWN-FINDING", "INFRA"))]
            meta["checks"][c] = {"exit": rc, "wall_s": round(time.time() - t0, 1), "lines": lines[:8]}
            print(c, "exit", rc, "|", " | ".join(lines[:4])[:600])
    finally:
        sh("git -C /repo checkout -- .")
        # evidence written while the seeded change was applied does not describe the unchanged tree: put the committed files back
        sh("git -C %s checkout -- evidence" % VERIF)
    json.dump(meta, open(os.path.join(out, "meta.json"), "w"), indent=1)
    return 0


if __name__ == "__main__":
    sys.exit(main())
