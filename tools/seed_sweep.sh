#!/bin/sh
# apply every stored seeded change to the repository checkout in use and run its property's quick check
# (scratch use: `vp run --with-repo -- sh tools/seed_sweep.sh`; never against /repo while other checks run)
[ -n "$VP_RUN_REPO" ] && export BIOSCRAPE_REPO="$VP_RUN_REPO"
R="${BIOSCRAPE_REPO:-/repo}"
for d in seeded/*/; do
  id=$(basename "$d"); p="C$(echo "$id" | cut -c2-)"
  # SWEEP_ROUNDS="C D E": only the rounds named (several sweeps can then run side by side, each on its own snapshot)
  [ -n "$SWEEP_ROUNDS" ] && { case " $SWEEP_ROUNDS " in *" $(echo "$id" | cut -c1) "*) ;; *) continue;; esac; }
  git -C "$R" apply "$PWD/$d/patch.diff" || { echo "$id patch does not apply"; continue; }
  ./check "$p" quick > "sweep_$id.log" 2>&1; rc=$?
  git -C "$R" checkout -- .
  echo "$id -> $p exit=$rc $(grep -E '^(VIOLATION|INFRA|OK)' "sweep_$id.log" | head -2 | tr '\n' '|' | cut -c1-200)"
done
# and the unchanged tree last, so that the build directory ends up clean
./check C01 quick > sweep_clean.log 2>&1; echo "clean C01 exit=$?"
