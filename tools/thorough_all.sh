#!/bin/sh
# run every thorough check once (scratch use: `vp run --with-repo -- sh tools/thorough_all.sh`)
[ -n "$VP_RUN_REPO" ] && export BIOSCRAPE_REPO="$VP_RUN_REPO"
for p in ${THOROUGH_ONLY:-C01 C02 C03 C04 C05 C06 C07 C08 C09 C10 C11 C12 C13 C14 C15 C16 C17 C18 C19 C20}; do
  s=$(date +%s)
  ./check $p thorough > thorough_$p.log 2>&1
  rc=$?
  echo "$p exit=$rc wall=$(( $(date +%s) - s ))s $(grep -E '^(OK|VIOLATION|INFRA|KNOWN)' thorough_$p.log | head -3 | tr '\n' '|')"
done
